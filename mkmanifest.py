#!/usr/bin/env python3
"""Regenerates /verif/MANIFEST.json from the table below (run after adding a check)."""
import json, os, subprocess

HERE = os.path.dirname(os.path.abspath(__file__))
props = [json.loads(l) for l in open(os.path.join(HERE, "properties.jsonl"))]

hook_commits = subprocess.run(
    ["git", "-C", "/repo", "log", "--format=%h", "--grep=^verif hooks"], capture_output=True, text=True
).stdout.split()
hook_commits.reverse()

# id -> (technique, level text, level note, design ref)
CHECKS = {
    "C01": ("online occupancy monitor (writers<<32|readers) over hostile concurrent workloads with injected delays at lock/select boundaries",
            "Every acquire that returned is checked against an atomically maintained count of certainly-held locks; holds on the executions produced (thousands of contended cases per run), not on all schedules.",
            "Occupancy is incremented after acquire returns and decremented before release is called, so a flagged state is a real overlap; reach depends on perturbation and workload mix.", "4/C01"),
    "C02": ("quiescence-state monitor: controller-driven histories judged at goroutine-state quiescent points, with drain phase and final TryLock probes",
            "Restates the liveness clause as: in every quiescent state reached no admissible waiter is blocked, no cancelled waiter is blocked, and an idle lock accepts both modes; decided on the states actually reached.",
            "Quiescence is read from a stop-the-world runtime.Stack snapshot (all goroutines blocked) and confirmed after a grace period before reporting.", "4/C02"),
    "C03": ("in-critical-section channel-discipline monitor plus quiescence check for missed broadcasts; gated sample/block template",
            "Every critical section checks open/closed status of all wait channels handed out; Wait results are checked against the predicate log; blocked-but-satisfied waiters are judged at quiescence.",
            "The harness owns the guarded state and broadcasts with every change; gates only order goroutines.", "4/C03"),
    "C04": ("per-container active-instance counter asserted at every entry of the managed function + watched wait channels, over burst histories with slow-exiting instances, removal/re-add, retry timers; gated hold-inside-exit template",
            "An overlap flagged by the counter is a real overlap (instances stamp entry/return themselves); reach comes from bursts of supersessions inside one exit latency and perturbed execute/timer schedule points.",
            "Managed functions are harness closures; quiescence/timer settling only ends cases, it never produces the verdict.", "4/C04"),
    "C05": ("post-call supersession assertion (every instance entered before the call has a cancelled context) + quiescent survivor judgement (count, context lineage tag, state vs GetState) under 3-5 concurrent drivers",
            "Sequential and concurrent histories with self-exiting, failing (retry timers) and run-until-cancelled instances; calls paced around the backoff period so timer callbacks race with them.",
            "Context operations are serialised in one driver so 'last context' is defined; liveness-style sub-checks are skipped once a root context was cancelled behind the container's back.", "4/C05"),
    "C06": ("reference-model monitor stepped beside Keyed/KeyedRefCount over seed-generated call sequences (all return values + key set after every call), timer behaviour judged only early (< delay/2) or late (3 delays + quiescence); gated removal-timer template; concurrent held-reference probes",
            "Sequential histories with and without a 30 ms release delay; a fired removal-timer callback is held before the mutex while the key is re-requested; concurrent AddKeyRef/Release races are judged by probing the key while a reference is certainly held.",
            "Wall-clock is used only as a guard that drops a history as inconclusive, never to decide a violation.", "4/C06"),
    "C07": ("per key/epoch active-instance assertion at every entry + post-removal and quiescent survivor checks + retry obligations at settled states; gated stale-timer, delayed-removal and retry-inside-backoff templates",
            "Burst histories over 1-4 keys with slow-exiting, failing (1 ms backoff) and succeeding routines; templates make the timer-sensitive clauses deterministic.",
            "Retry obligations are not judged across context changes (a context change may drop a pending retry).", "4/C07"),
    "C08": ("release-function monitor: each release func counts itself and, from inside the call (under the RefCount mutex), inspects the target container and the per-holder 'last told' table; quiescent and final release-count audits",
            "Concurrent reference actors, invalidator, context changer (incl. cancelling the root context behind the container's back) and consumers against scripted resolver outcomes, both keep-unreferenced settings.",
            "Excuse marks (about to release / invalidate / change context) are set before the call, so they can only excuse.", "4/C08"),
    "C09": ("resolver active-counter assertion at every entry + quiescent delivery judgement (newest result in targets and in every held reference's last callback) + panic/blocked-call detection; gated hold-in-return-path template",
            "Same workload with restart bursts while a resolver ignores cancellation; AddRef(nil) issued in every state.",
            "A panic that leaves the mutex locked is reported through the watchdog path together with the recorded panic.", "4/C09"),
    "C10": ("consumer oracles: holds of Wait/Resolve/ResolveWithReleased entered into the premature-release table; Access results judged against release stamps falling inside callback invocations; quiescent checks for un-cancelled invocations and missing re-invocation; equal-value replacement cases",
            "1-3 Access callers and 1-3 Wait/Resolve callers with an invalidator, context changer and other references.",
            "The WaitWithReleased 'ref' race is a data race first: it is decided by C13; a crash from it would be reported here as a worker crash.", "4/C10"),
    "C11": ("single-winner / by-result agreement monitor + porcupine single-assignment model + interval oracle for PromiseContainer replacements; spinning decided by counting Broadcast critical sections; quiescence check for blocked awaiters",
            "Concurrent setters/awaiters with every interruption source and sentinel error values; container awaiters are judged against the intervals in which each promise was current and resolved.",
            "Values are unique per SetResult; two recorded known findings (container ignores errCh / cancelCh while a promise is pending) are matched by exact signature.", "4/C11"),
    "C12": ("linearizability checking of recorded histories with porcupine (stack and deque models) + conservation monitor, CAS windows widened by failpoint-style delays",
            "Thousands of short concurrent histories per run are checked against sequential models; large runs check that no element is lost or duplicated.",
            "porcupine v1.3.0 trusted; timeouts are inconclusive; histories are short (NP-complete checking).", "4/C12"),
    "C13": ("Go race detector (-race build of harness + library) over generated client programs per concurrency-safe type, the behavioural workloads of the other properties and the pinned test suite; reports parsed from GORACE logs and de-duplicated by accessing-function pair",
            "Client programs call every documented method from 2-8 goroutines with schedule-point perturbation that touches no shared memory; the method-overlap matrix is measured from per-goroutine monotonic-clock logs after the join.",
            "Only executed accesses are seen; a report with both accesses in harness code is reported as a harness defect.", "4/C13"),
    "C14": ("sequential reference-machine monitor: per-call required/forbidden re-runs judged at settled states, post-hoc cause check for every re-run, WaitExited and exit-callback oracles, recording backoff",
            "Histories of 14-64 calls with scripted outcomes; some calls are issued inside the backoff interval (unsettled) and judged only by the cause rule; one recorded known finding (success lost when the context changes between return and bookkeeping).",
            "Retry timers: 1 ms backoff, 'surely fired' = 30 periods + quiescence, repeated until the instance count is stable.", "4/C14"),
    "C15": ("porcupine register model (with custom-equality no-op rule) + SwapValue conservation + waiter return/quiescence monitors + gated sample/block template",
            "Short concurrent histories are checked for linearizability; waiter results are checked against the condition, the write log and the interruption sources; blocked-but-satisfied waiters are judged at quiescence.",
            "Unique written values identify the write a waiter observed; custom equalities include a non-reflexive (nil-safe) one.", "4/C15"),
    "C16": ("call-entry/return monitor on the wrapped function (overlap, call-after-success, stale error) + caller result oracle + quiescence check",
            "2-10 concurrent callers, scripted outcomes and latencies, cancellations including the initiator's while the function runs; MemoizeFunc total call count and result agreement.",
            "The wrapped function stamps itself; blocked function calls are ended by the harness before the final judgement.", "4/C16"),
    "C17": ("exhaustive enumeration of the small script space under a gated/ungated schedule point + sampled hostile scripts, result oracle over recorded function outcomes",
            "All scripts with up to 4 functions over {nil entry, nil, error, Canceled} x {caller parked after spawning, free} are executed and judged; larger and cancelling scripts are sampled.",
            "Function outcomes and return stamps are recorded by the functions themselves; hangs are decided by quiescence.", "4/C17"),
    "C18": ("job-side monitors (active count, run count, start order) + (queued,running) pair invariant on every returned/watched pair + WaitIdle return oracle over stamps + final quiescence",
            "Limits 0/1/2/3/8/-1, several producers, batches with nil jobs, gated jobs, error channels delivering nil/error/close to WaitIdle; worker retire point perturbed.",
            "Jobs stamp their own start/end; producers are serialised by the harness only for the limit-1 order check.", "4/C18"),
    "C19": ("differential monitoring against independent reference implementations over enumerated and seed-generated inputs",
            "All pad lengths/contents/capacities in range, every Unpad input up to 2 bytes, sampled longer inputs, string sets over a hostile alphabet, prng chunkings.",
            "Reference implementations are trivially small; inputs beyond the enumerated bounds are sampled.", "4/C19"),
    "C20": ("reference-model monitors stepped beside the implementation over seed-generated operation sequences with scripted short reads and errors",
            "Each operation's result and the observable state are compared with a bounded position model / running sum / close-once machine / byte streams / map model after every call.",
            "Models are independent re-implementations of the documented sequential semantics.", "4/C20"),
}

checks = []
for p in props:
    pid = p["id"]
    if pid not in CHECKS:
        continue
    tech, text, note, ref = CHECKS[pid]
    checks.append({
        "property_id": pid,
        "quick_cmd": "./check %s quick" % pid,
        "thorough_cmd": "./check %s thorough" % pid,
        "evidence_file": "/verif/evidence/%s.json" % pid,
        "replay_cmd_template": "./check %s quick --replay {path}" % pid,
        "engine": "vrun",
        "level_claimed": {"category": "exploration", "text": text, "design_ref": "DESIGN.md section " + ref},
        "level_note": note,
        "technique": "runtime monitoring: " + tech,
    })

na = [{"property_id": p["id"], "reason": "check under construction in this round; will be claimed once built"}
      for p in props if p["id"] not in CHECKS]

m = {
    "version": 1,
    "setup_cmd": "./setup.sh",
    "hooks": {
        "guard": "verif",
        "enable": "go build -tags verif in /verif/harness (go.mod: replace github.com/aperturerobotics/util => /repo); hooks are verifhook.Point calls",
        "baseline_off_cmd": "cd /repo && GOFLAGS=-mod=mod GOPROXY=off GOSUMDB=off GOTOOLCHAIN=local go test -json -vet=off -count=1 -timeout 25m ./...",
        "source_commits": hook_commits,
        "add_only": True,
    },
    "engines": [{"name": "vrun", "path": "/verif/harness", "serves_properties": sorted(CHECKS), "kind_free_text":
                 "Go harness: worker processes run seed-determined case lists against the real library built with -tags verif; monitors = online assertions, recorded-history checkers (porcupine), reference models, quiescence detector, race detector"}],
    "checks": checks,
    "not_applicable": na,
    "notes": "All checks: exit 0 held on what was observed, exit 1 + VIOLATION line, exit 3 + INCONCLUSIVE line when too little was observed (not expected on the unchanged tree). VERIF_SEED selects the case lists.",
}
json.dump(m, open(os.path.join(HERE, "MANIFEST.json"), "w"), indent=1)
print("claimed:", sorted(CHECKS), "not applicable:", [x["property_id"] for x in na])
