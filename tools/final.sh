#!/bin/bash
# usage: tools/final.sh  — regenerate the committed evidence: every check's quick tier against /repo itself, then MANIFEST + schema validation.
cd "$(dirname "$0")/.."
rc_all=0
for p in C01 C02 C03 C04 C05 C06 C07 C08 C09 C10 C11 C12 C13 C14 C15 C16 C17 C18 C19 C20; do
  out=$(./check $p quick 2>&1); rc=$?
  echo "rc=$rc $(echo "$out" | grep -E "^$p " | cut -c1-200)"
  echo "$out" | grep -E "^KNOWN-FINDING|^VIOLATION|^INCONCLUSIVE" | cut -c1-160 | sed 's/^/     /'
  [ $rc -ne 0 ] && rc_all=1
done
python3 mkmanifest.py
python3-vt - <<'PY'
import json, jsonschema, glob
m=json.load(open('MANIFEST.json')); jsonschema.validate(m, json.load(open('/root/.vp/MANIFEST.schema.json')))
es=json.load(open('/root/.vp/EVIDENCE.schema.json'))
for f in sorted(glob.glob('evidence/*.json')): jsonschema.validate(json.load(open(f)), es)
print("MANIFEST and", len(glob.glob('evidence/*.json')), "evidence files validate")
PY
exit $rc_all
