#!/bin/bash
# usage: tools/sweep.sh <quick|thorough> <seed>...   (run from the /verif checkout or a snapshot of it)
# Runs every property's check (or those named in $PROPS) at the given seeds; evidence and replays go to ./sweepout, not to /verif.
cd "$(dirname "$0")/.."
tier=$1; shift
for s in "$@"; do
  for p in ${PROPS:-C01 C02 C03 C04 C05 C06 C07 C08 C09 C10 C11 C12 C13 C14 C15 C16 C17 C18 C19 C20}; do
    out=$(VERIF_SEED=$s VERIF_OUT=$PWD/sweepout ./check $p $tier 2>&1)
    rc=$?
    echo "rc=$rc $(echo "$out" | grep -E "^$p " | cut -c1-230)"
    echo "$out" | grep -E "signature|inconclusive x|INCONCLUSIVE|note:" | cut -c1-300 | sed 's/^/     /'
  done
done
echo SWEEPDONE
