package main

import (
	"fmt"
	"sync"
	"sync/atomic"
	"time"

	"verifharness/mon"
)

func main() {
	fails := 0
	var mu sync.Mutex
	for i := 0; i < 300000; i++ {
		var flag atomic.Bool
		ch := make(chan struct{})
		mu.Lock()
		go func() {
			// like RefCount.resolve: started under a lock held by the spawner
			flag.Store(true)
			<-ch
		}()
		mu.Unlock()
		if !mon.Quiesce(5 * time.Second) {
			fmt.Println("no quiescence")
		}
		if !flag.Load() {
			fails++
			s := mon.TakeSnapshot(true)
			fmt.Printf("FAIL at %d: states %v\n%s\n", i, s.States, s.Dump)
			if fails > 2 {
				break
			}
		}
		close(ch)
	}
	fmt.Println("fails", fails)
}
