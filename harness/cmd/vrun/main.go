// Command vrun is the driver and the worker of the runtime-monitoring checks.
//
//	vrun driver <Cxx> <quick|thorough> [--replay file]
//	vrun worker <Cxx> <tier> <seed> <idx> <n> <from> <only>
package main

import (
	"bufio"
	"encoding/json"
	"fmt"
	"os"
	"os/exec"
	"path/filepath"
	"sort"
	"strconv"
	"strings"
	"sync"
	"syscall"
	"time"

	"verifharness/mon"
	"verifharness/worlds"
)

func main() {
	if len(os.Args) < 4 {
		fmt.Fprintln(os.Stderr, "usage: vrun driver|worker <prop> <tier> ...")
		os.Exit(3)
	}
	switch os.Args[1] {
	case "worker":
		worker(os.Args[2:])
	case "driver":
		os.Exit(driver(os.Args[2:]))
	default:
		os.Exit(3)
	}
}

func worker(a []string) {
	prop, tier := a[0], a[1]
	seed, _ := strconv.ParseUint(a[2], 10, 64)
	idx, _ := strconv.Atoi(a[3])
	n, _ := strconv.Atoi(a[4])
	from, _ := strconv.Atoi(a[5])
	only, _ := strconv.Atoi(a[6])
	spec, ok := worlds.Registry[prop]
	if !ok {
		fmt.Fprintln(os.Stderr, "unknown property", prop)
		os.Exit(3)
	}
	out := bufio.NewWriterSize(os.Stdout, 1<<16)
	fw := &flushWriter{w: out}
	w := mon.NewWorker(prop, tier, seed, idx, n, fw)
	w.From, w.Only = from, only
	if spec.CaseTimeout != 0 {
		w.CaseTimeout = spec.CaseTimeout
	}
	w.Race = os.Getenv("VERIF_RACE_BUILD") == "1"
	mon.Install(spec.RaceSafeHooks)
	spec.Run(w)
	w.Finish(mon.HookHits())
	_ = out.Flush()
}

type flushWriter struct {
	mu sync.Mutex
	w  *bufio.Writer
}

func (f *flushWriter) Write(p []byte) (int, error) {
	f.mu.Lock()
	defer f.mu.Unlock()
	n, err := f.w.Write(p)
	_ = f.w.Flush()
	return n, err
}

type violationRec struct {
	Worker     int             `json:"worker"`
	Case       int             `json:"case"`
	Name       string          `json:"name"`
	Params     json.RawMessage `json:"params"`
	Violations []mon.Violation `json:"violations"`
	Events     json.RawMessage `json:"events"`
	Stderr     string          `json:"stderr,omitempty"`
}

type finding struct {
	Property string `json:"property"`
	Status   string `json:"status"`
	Sig      string `json:"sig"`
	What     string `json:"what"`
	Commit   string `json:"commit,omitempty"`
}

type workerResult struct {
	summary      map[string]any
	violations   []violationRec
	inconclusive int
	inconWhy     map[string]int
	stuck        int
	crashed      int
	notes        []string
}

func verifDir() string {
	if d := os.Getenv("VERIF_DIR"); d != "" {
		return d
	}
	return "/verif"
}

func outDir() string {
	if d := os.Getenv("VERIF_OUT"); d != "" {
		return d
	}
	return verifDir()
}

func driver(a []string) int {
	prop, tier := a[0], a[1]
	if tier != "quick" && tier != "thorough" {
		fmt.Fprintln(os.Stderr, "tier must be quick or thorough")
		return 3
	}
	replay := ""
	for i := 2; i < len(a); i++ {
		if a[i] == "--replay" && i+1 < len(a) {
			replay = a[i+1]
		}
	}
	spec, ok := worlds.Registry[prop]
	if !ok {
		fmt.Fprintln(os.Stderr, "unknown property", prop)
		return 3
	}
	seed := uint64(1)
	if s := os.Getenv("VERIF_SEED"); s != "" {
		if v, err := strconv.ParseInt(s, 10, 64); err == nil {
			seed = uint64(v)
		}
	}
	start := time.Now()
	exe, _ := os.Executable()
	tmp := filepath.Dir(exe)
	nw := spec.Workers
	if nw == 0 {
		nw = 16
	}
	if v := os.Getenv("VERIF_WORKERS"); v != "" {
		if x, err := strconv.Atoi(v); err == nil && x > 0 {
			nw = x
		}
	}
	timeout := spec.QuickTimeout
	if tier == "thorough" {
		timeout = spec.ThoroughTimeout
	}
	if timeout == 0 {
		timeout = 10 * time.Minute
	}

	type job struct{ idx, only int }
	var jobs []job
	replayN := 1
	if replay != "" {
		var rp struct {
			Seed   uint64 `json:"seed"`
			Tier   string `json:"tier"`
			Worker int    `json:"worker"`
			Case   int    `json:"case"`
			NW     int    `json:"workers"`
		}
		b, err := os.ReadFile(replay)
		if err != nil || json.Unmarshal(b, &rp) != nil {
			fmt.Fprintln(os.Stderr, "cannot read replay file", replay)
			return 3
		}
		seed, tier, nw = rp.Seed, rp.Tier, rp.NW
		replayN = 20
		for i := 0; i < replayN; i++ {
			jobs = append(jobs, job{rp.Worker, rp.Case})
		}
		fmt.Printf("replay: re-driving case %d of worker %d (seed %d, tier %s) %d times\n", rp.Case, rp.Worker, seed, tier, replayN)
	} else {
		for i := 0; i < nw; i++ {
			jobs = append(jobs, job{i, -1})
		}
	}

	results := make([]*workerResult, len(jobs))
	var wg sync.WaitGroup
	sem := make(chan struct{}, 16)
	for j, jb := range jobs {
		wg.Add(1)
		go func(j int, jb job) {
			defer wg.Done()
			sem <- struct{}{}
			defer func() { <-sem }()
			results[j] = runWorker(exe, tmp, prop, tier, seed, jb.idx, nw, jb.only, j, spec, timeout)
		}(j, jb)
	}
	wg.Wait()

	// merge
	var evaluations, ntCases, events, inconclusive, stuck, crashed int64
	hashes := map[string]struct{}{}
	counters := map[string]int64{}
	hookHits := map[string]int64{}
	var samples []any
	var viols []violationRec
	var notes []string
	inconWhy := map[string]int{}
	summaries := 0
	for _, r := range results {
		if r == nil {
			continue
		}
		viols = append(viols, r.violations...)
		inconclusive += int64(r.inconclusive)
		for k, v := range r.inconWhy {
			inconWhy[k] += v
		}
		stuck += int64(r.stuck)
		crashed += int64(r.crashed)
		notes = append(notes, r.notes...)
		s := r.summary
		if s == nil {
			continue
		}
		summaries++
		evaluations += int64(num(s["evaluations"]))
		ntCases += int64(num(s["nontrivial_cases"]))
		events += int64(num(s["events"]))
		if hs, ok := s["hashes"].([]any); ok {
			for _, h := range hs {
				hashes[fmt.Sprint(h)] = struct{}{}
			}
		}
		if m, ok := s["counters"].(map[string]any); ok {
			for k, v := range m {
				counters[k] += int64(num(v))
			}
		}
		if m, ok := s["hook_hits"].(map[string]any); ok {
			for k, v := range m {
				hookHits[k] += int64(num(v))
			}
		}
		if ss, ok := s["samples"].([]any); ok && len(samples) < 4 {
			for _, x := range ss {
				if len(samples) < 4 {
					samples = append(samples, x)
				}
			}
		}
	}

	// race reports of the pinned test suite run under the detector by the check script
	if pfx := os.Getenv("VERIF_PINNED_RACE"); pfx != "" && spec.Race {
		pv := raceReports(filepath.Dir(pfx), filepath.Base(pfx), -1, spec)
		for i := range pv {
			pv[i].Name = "pinned-suite-under-race"
		}
		viols = append(viols, pv...)
		if n, err := strconv.Atoi(os.Getenv("VERIF_PINNED_RACE_RUNS")); err == nil {
			counters["pinned_suite_runs_under_race"] += int64(n)
		}
	}
	// known findings
	var kf struct {
		Findings []finding `json:"findings"`
	}
	if b, err := os.ReadFile(filepath.Join(verifDir(), "known-findings.json")); err == nil {
		_ = json.Unmarshal(b, &kf)
	}
	known := map[string]finding{}
	for _, f := range kf.Findings {
		if f.Property == prop && f.Status == "known" {
			known[f.Sig] = f
		}
	}

	exit := 0
	knownSeen := map[string]int{}
	newViol := 0
	replayDir := filepath.Join(outDir(), "replays")
	_ = os.MkdirAll(replayDir, 0o755)
	written := 0
	for _, v := range viols {
		allKnown := true
		for _, x := range v.Violations {
			if _, ok := known[x.Sig]; ok {
				knownSeen[x.Sig]++
			} else {
				allKnown = false
			}
		}
		if allKnown {
			continue
		}
		newViol++
		exit = 1
		if written < 10 {
			written++
			path := filepath.Join(replayDir, fmt.Sprintf("%s-%s-s%d-w%d-c%d.json", prop, tier, seed, v.Worker, v.Case))
			if v.Case < 0 {
				path = filepath.Join(replayDir, fmt.Sprintf("%s-%s-s%d-w%d-report%d.json", prop, tier, seed, v.Worker, written))
			}
			rp := map[string]any{"property": prop, "tier": tier, "seed": seed, "worker": v.Worker, "workers": nw, "case": v.Case, "name": v.Name,
				"params": v.Params, "violations": v.Violations, "events": v.Events, "stderr": v.Stderr}
			b, _ := json.MarshalIndent(rp, "", " ")
			_ = os.WriteFile(path, b, 0o644)
			for _, x := range v.Violations {
				if _, ok := known[x.Sig]; !ok {
					fmt.Printf("  [%s] %s: %s\n", x.Kind, x.Sig, firstLines(x.Detail, 12))
				}
			}
			fmt.Printf("VIOLATION property=%s replay=%s\n", prop, path)
		}
	}
	sigCount := map[string]int{}
	for _, v := range viols {
		for _, x := range v.Violations {
			if _, ok := known[x.Sig]; !ok {
				sigCount[x.Sig]++
			}
		}
	}
	for s, n := range sigCount {
		fmt.Printf("  violation signature x%d: %s\n", n, s)
	}
	sigs := make([]string, 0, len(knownSeen))
	for s := range knownSeen {
		sigs = append(sigs, s)
	}
	sort.Strings(sigs)
	for _, s := range sigs {
		fmt.Printf("KNOWN-FINDING: property=%s %s — %s (seen %d times in this run)\n", prop, s, known[s].What, knownSeen[s])
	}

	distinct := int64(len(hashes))
	wall := time.Since(start).Seconds()
	status := "held on what was observed"
	if exit == 1 {
		status = "violated"
	}
	// inconclusive run: too little observed
	floor := spec.QuickFloor
	if tier == "thorough" {
		floor = spec.ThoroughFloor
	}
	if floor < 2 {
		floor = 2
	}
	var inconReasons []string
	if replay == "" {
		if summaries < (len(jobs)+1)/2 {
			inconReasons = append(inconReasons, fmt.Sprintf("only %d of %d workers finished", summaries, len(jobs)))
		}
		if distinct < int64(floor) {
			inconReasons = append(inconReasons, fmt.Sprintf("only %d distinct non-trivial cases (floor %d)", distinct, floor))
		}
		for _, need := range spec.RequiredCounters {
			if counters[need] == 0 && hookHits[need] == 0 {
				inconReasons = append(inconReasons, "required observation never made: "+need)
			}
		}
	}
	if exit == 0 && len(inconReasons) != 0 {
		exit = 3
		status = "inconclusive"
	}

	fmt.Printf("%s %s seed=%d: %s — %d cases, %d non-trivial (%d distinct shapes), %d events, %d inconclusive, %d stuck, %d crashed workers, %d violating cases (%d known-only), %.1fs\n",
		prop, tier, seed, status, evaluations, ntCases, distinct, events, inconclusive, stuck, crashed, len(viols), len(viols)-newViol, wall)
	for _, n := range notes {
		fmt.Println("  note:", n)
	}
	for k, v := range inconWhy {
		fmt.Printf("  inconclusive x%d: %s\n", v, k)
	}
	if exit == 3 {
		fmt.Printf("INCONCLUSIVE property=%s %s\n", prop, strings.Join(inconReasons, "; "))
	}
	if replay != "" {
		return exit
	}

	ev := map[string]any{
		"property_id": prop, "tier": tier, "seed": int64(seed), "level": "exploration",
		"coverage": map[string]any{
			"evaluations":         evaluations,
			"distinct_nontrivial": distinct,
			"nontrivial_cases":    ntCases,
			"rule":                spec.Rule,
			"samples":             samples,
			"events_recorded":     events,
			"hook_hits":           hookHits,
			"oracle_counters":     counters,
			"inconclusive_cases":  inconclusive + stuck,
			"inconclusive_why":    inconWhy,
			"crashed_workers":     crashed,
			"workers":             nw,
			"known_findings_seen": knownSeen,
			"verdict":             status,
			"exhaustive":          false,
		},
		"assumptions": spec.Assumptions,
		"wall_s":      wall,
		"violations":  newViol,
	}
	if len(samples) == 0 {
		ev["coverage"].(map[string]any)["samples"] = []any{"no sample recorded"}
	}
	b, _ := json.MarshalIndent(ev, "", " ")
	_ = os.MkdirAll(filepath.Join(outDir(), "evidence"), 0o755)
	_ = os.WriteFile(filepath.Join(outDir(), "evidence", prop+".json"), b, 0o644)
	return exit
}

func firstLines(s string, n int) string {
	l := strings.Split(s, "\n")
	if len(l) > n {
		l = l[:n]
	}
	return strings.Join(l, "\n    ")
}

func num(v any) float64 {
	switch x := v.(type) {
	case float64:
		return x
	case json.Number:
		f, _ := x.Float64()
		return f
	}
	return 0
}

// runWorker runs one worker, restarting it after a stuck case or a crash so
// that the rest of its fixed case list is still executed.
func runWorker(exe, tmp, prop, tier string, seed uint64, idx, nw, only, slot int, spec worlds.Spec, timeout time.Duration) *workerResult {
	res := &workerResult{}
	from := 0
	deadline := time.Now().Add(timeout)
	for attempt := 0; attempt < 12; attempt++ {
		outPath := filepath.Join(tmp, fmt.Sprintf("w%d-%d.out", slot, attempt))
		errPath := filepath.Join(tmp, fmt.Sprintf("w%d-%d.err", slot, attempt))
		outF, _ := os.Create(outPath)
		errF, _ := os.Create(errPath)
		cmd := exec.Command(exe, "worker", prop, tier, strconv.FormatUint(seed, 10), strconv.Itoa(idx), strconv.Itoa(nw), strconv.Itoa(from), strconv.Itoa(only))
		cmd.Stdout, cmd.Stderr = outF, errF
		gmp := spec.GOMAXPROCS
		if gmp == 0 {
			gmp = 4
		}
		cmd.Env = append(os.Environ(), "GOMAXPROCS="+strconv.Itoa(gmp), "GOTRACEBACK=all")
		if spec.Race {
			cmd.Env = append(cmd.Env, "GORACE=halt_on_error=0 log_path="+filepath.Join(tmp, fmt.Sprintf("race-w%d-%d", slot, attempt)), "VERIF_RACE_BUILD=1")
		}
		if err := cmd.Start(); err != nil {
			res.notes = append(res.notes, "cannot start worker: "+err.Error())
			return res
		}
		doneCh := make(chan error, 1)
		go func() { doneCh <- cmd.Wait() }()
		var werr error
		timedOut := false
		select {
		case werr = <-doneCh:
		case <-time.After(time.Until(deadline)):
			timedOut = true
			_ = cmd.Process.Signal(syscall.SIGQUIT)
			select {
			case werr = <-doneCh:
			case <-time.After(5 * time.Second):
				_ = cmd.Process.Kill()
				werr = <-doneCh
			}
		}
		_ = outF.Close()
		_ = errF.Close()

		lastStart := -1
		var lastStartLine map[string]any
		gotSummary := false
		f, _ := os.Open(outPath)
		sc := bufio.NewScanner(f)
		sc.Buffer(make([]byte, 1<<20), 1<<26)
		for sc.Scan() {
			var m map[string]any
			if json.Unmarshal(sc.Bytes(), &m) != nil {
				continue
			}
			switch m["type"] {
			case "start":
				lastStart = int(num(m["case"]))
				lastStartLine = m
			case "inconclusive":
				res.inconclusive++
				if res.inconWhy == nil {
					res.inconWhy = map[string]int{}
				}
				res.inconWhy[fmt.Sprint(m["name"], ": ", m["why"])]++
			case "stuck":
			case "violation":
				var v violationRec
				_ = json.Unmarshal(sc.Bytes(), &v)
				v.Worker = idx
				res.violations = append(res.violations, v)
			case "summary":
				gotSummary = true
				res.summary = mergeSummary(res.summary, m)
			}
		}
		_ = f.Close()
		if spec.Race {
			res.violations = append(res.violations, raceReports(tmp, fmt.Sprintf("race-w%d-%d", slot, attempt), idx, spec)...)
		}
		if gotSummary {
			return res
		}
		if timedOut {
			res.notes = append(res.notes, fmt.Sprintf("worker %d timed out after %s at case %d (rest of its list not run)", idx, timeout, lastStart))
			res.stuck++
			return res
		}
		// no summary: watchdog exit (4) or crash
		code := -1
		if ee, ok := werr.(*exec.ExitError); ok {
			code = ee.ExitCode()
		}
		if code == 4 {
			res.stuck++
			// stuck case: inconclusive, continue after it
			res.notes = append(res.notes, fmt.Sprintf("worker %d: watchdog fired in case %d (inconclusive)", idx, lastStart))
			saveStuck(errPath, prop, idx, lastStart)
		} else {
			res.crashed++
			eb, _ := os.ReadFile(errPath)
			es := string(eb)
			if len(es) > 6000 {
				es = es[:6000]
			}
			sig := "crash:" + crashSig(es)
			p, _ := json.Marshal(lastStartLine["params"])
			name, _ := lastStartLine["name"].(string)
			res.violations = append(res.violations, violationRec{Worker: idx, Case: lastStart, Name: name, Params: p,
				Violations: []mon.Violation{{Kind: "crash", Sig: sig, Detail: fmt.Sprintf("worker process died (exit %d) while running case %d:\n%s", code, lastStart, firstLines(es, 40))}}, Stderr: es})
		}
		if only >= 0 || lastStart < 0 {
			return res
		}
		if res.stuck+res.crashed >= 3 {
			res.notes = append(res.notes, fmt.Sprintf("worker %d: giving up after %d stuck/crashed cases (rest of its list not run)", idx, res.stuck+res.crashed))
			return res
		}
		from = lastStart + 1
	}
	return res
}

func saveStuck(errPath, prop string, idx, c int) {
	b, err := os.ReadFile(errPath)
	if err != nil {
		return
	}
	dir := filepath.Join(outDir(), "replays")
	_ = os.MkdirAll(dir, 0o755)
	_ = os.WriteFile(filepath.Join(dir, fmt.Sprintf("%s-stuck-w%d-c%d.txt", prop, idx, c)), b, 0o644)
}

// crashSig extracts a stable signature from a crash dump: the panic message class and first library frame.
func crashSig(es string) string {
	msg := ""
	for _, l := range strings.Split(es, "\n") {
		if strings.HasPrefix(l, "panic: ") || strings.HasPrefix(l, "fatal error: ") {
			msg = l
			break
		}
	}
	fn := ""
	for _, l := range strings.Split(es, "\n") {
		if strings.HasPrefix(l, "github.com/aperturerobotics/util/") && !strings.Contains(l, "verifhook") {
			fn = strings.TrimPrefix(l, "github.com/aperturerobotics/util/")
			if i := strings.Index(fn, "("); i > 0 {
				fn = fn[:i]
			}
			break
		}
	}
	if len(msg) > 80 {
		msg = msg[:80]
	}
	return msg + "@" + fn
}

func mergeSummary(a, b map[string]any) map[string]any {
	if a == nil {
		return b
	}
	for _, k := range []string{"evaluations", "nontrivial_cases", "events", "inconclusive", "violations"} {
		a[k] = num(a[k]) + num(b[k])
	}
	if hb, ok := b["hashes"].([]any); ok {
		ha, _ := a["hashes"].([]any)
		a["hashes"] = append(ha, hb...)
	}
	for _, k := range []string{"counters", "hook_hits"} {
		ma, _ := a[k].(map[string]any)
		mb, _ := b[k].(map[string]any)
		if ma == nil {
			ma = map[string]any{}
		}
		for kk, v := range mb {
			ma[kk] = num(ma[kk]) + num(v)
		}
		a[k] = ma
	}
	return a
}
