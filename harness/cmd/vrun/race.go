package main

import (
	"fmt"
	"os"
	"path/filepath"
	"regexp"
	"strings"

	"verifharness/mon"
	"verifharness/worlds"
)

// raceReports parses race detector logs written by a worker.
func raceReports(tmp, prefix string, worker int, spec worlds.Spec) []violationRec {
	files, _ := filepath.Glob(filepath.Join(tmp, prefix+".*"))
	var out []violationRec
	seen := map[string]bool{}
	for _, f := range files {
		b, err := os.ReadFile(f)
		if err != nil {
			continue
		}
		for _, rep := range splitRaceReports(string(b)) {
			sig, lib, harnessOnly := classifyRace(rep)
			if !lib && !harnessOnly {
				continue
			}
			key := sig
			if seen[key] {
				continue
			}
			seen[key] = true
			kind := "race"
			if harnessOnly {
				kind = "harness-race"
				sig = "harness-race:" + sig
			} else {
				sig = "race:" + sig
			}
			out = append(out, violationRec{Worker: worker, Case: -1, Name: "race-report",
				Violations: []mon.Violation{{Kind: kind, Sig: sig, Detail: rep}}})
		}
	}
	return out
}

func splitRaceReports(s string) []string {
	var reps []string
	parts := strings.Split(s, "==================")
	for _, p := range parts {
		if strings.Contains(p, "WARNING: DATA RACE") {
			reps = append(reps, strings.TrimSpace(p))
		}
	}
	return reps
}

var frameRe = regexp.MustCompile(`(?m)^  (\S+)\(.*\)\n\s+(\S+):(\d+)`)

// classifyRace returns a signature (pair of accessing functions), whether an accessing
// frame lies in a non-test library file, and whether both accesses are in harness code.
func classifyRace(rep string) (sig string, lib bool, harnessOnly bool) {
	// blocks: first access ("Read at"/"Write at"), second ("Previous read/write at"), then goroutine creation stacks
	blocks := regexp.MustCompile(`(?m)^(Read|Write|Previous read|Previous write|Atomic|Previous atomic)[^\n]*\n`).Split(rep, -1)
	heads := regexp.MustCompile(`(?m)^(Read|Write|Previous read|Previous write|Atomic|Previous atomic)[^\n]*\n`).FindAllString(rep, -1)
	var accFns []string
	anyLib := false
	allHarness := true
	for i := range heads {
		if i+1 >= len(blocks) {
			break
		}
		blk := blocks[i+1]
		if j := strings.Index(blk, "\n\n"); j >= 0 {
			blk = blk[:j]
		}
		// the accessing frame: the innermost frame that is library or harness code. Frames of the standard library
		// (runtime, sync, but also slices, maps, container/..., which the library may call on memory it shares) are
		// attributed to their nearest caller outside the standard library.
		fn := ""
		frames := frameRe.FindAllStringSubmatch(blk, -1)
		isLib := false
		for _, fr := range frames {
			name, file := fr[1], fr[2]
			if !strings.Contains(name, "github.com/aperturerobotics/util/") && !strings.HasPrefix(name, "verifharness/") && !strings.HasPrefix(name, "main.") {
				continue
			}
			fn = name
			if strings.Contains(name, "github.com/aperturerobotics/util/") && !strings.HasSuffix(file, "_test.go") && !strings.Contains(name, "/verifhook") {
				isLib = true
			}
			break
		}
		if isLib {
			anyLib = true
			allHarness = false
		} else if !strings.HasPrefix(fn, "verifharness/") {
			allHarness = false
		}
		accFns = append(accFns, stripClosure(fn))
		if len(accFns) == 2 {
			break
		}
	}
	if len(accFns) == 2 && accFns[0] > accFns[1] {
		accFns[0], accFns[1] = accFns[1], accFns[0]
	}
	sig = strings.Join(accFns, "|")
	if sig == "" {
		sig = fmt.Sprintf("unparsed-%d", len(rep))
	}
	return sig, anyLib, !anyLib && allHarness && len(accFns) > 0
}

func stripClosure(fn string) string {
	fn = strings.TrimPrefix(fn, "github.com/aperturerobotics/util/")
	// drop generic instantiation and closure numbering
	fn = regexp.MustCompile(`\[[^\]]*\]`).ReplaceAllString(fn, "")
	fn = regexp.MustCompile(`\.func\d+(\.\d+)*`).ReplaceAllString(fn, ".func")
	fn = regexp.MustCompile(`\.gowrap\d+`).ReplaceAllString(fn, "")
	return fn
}
