// mutgen writes mechanical single-site mutants of a Go source file as unified diffs.
//
//	mutgen <repo-root> <relative-file> <out-dir>
//
// Operators (text edits at token positions, so everything else in the file stays byte-identical):
//
//	negate-if     if C {            -> if !(C) {
//	binop         == != < <= > >= && ||  -> the "neighbour" operator
//	del-call      a statement that is a bare call (not verifhook.Point, not panic)   -> removed
//	del-assign    x.f = nil / x = nil / x.f = false / x.f = true                      -> removed
//	del-defer     defer f(...)      -> removed
//	incdec        x++ / x--         -> swapped
//	intlit        decimal integer literal N -> N+1
//
// It is the self-test generator of /verif: does an owning check notice a change that still builds and passes the pinned suite?
package main

import (
	"fmt"
	"go/ast"
	"go/parser"
	"go/token"
	"os"
	"os/exec"
	"path/filepath"
	"sort"
	"strings"
)

type edit struct {
	start, end int
	repl       string
	op         string
	line       int
}

func main() {
	if len(os.Args) != 4 {
		fmt.Fprintln(os.Stderr, "usage: mutgen <repo-root> <relative-file> <out-dir>")
		os.Exit(2)
	}
	root, rel, out := os.Args[1], os.Args[2], os.Args[3]
	src, err := os.ReadFile(filepath.Join(root, rel))
	if err != nil {
		panic(err)
	}
	fset := token.NewFileSet()
	f, err := parser.ParseFile(fset, rel, src, parser.ParseComments)
	if err != nil {
		panic(err)
	}
	off := func(p token.Pos) int { return fset.Position(p).Offset }
	line := func(p token.Pos) int { return fset.Position(p).Line }
	var edits []edit
	swap := map[token.Token]string{
		token.EQL: "!=", token.NEQ: "==", token.LSS: "<=", token.LEQ: "<", token.GTR: ">=", token.GEQ: ">",
		token.LAND: "||", token.LOR: "&&",
	}
	isHook := func(e ast.Expr) bool {
		c, ok := e.(*ast.CallExpr)
		if !ok {
			return false
		}
		if s, ok := c.Fun.(*ast.SelectorExpr); ok {
			if id, ok := s.X.(*ast.Ident); ok && id.Name == "verifhook" {
				return true
			}
		}
		if id, ok := c.Fun.(*ast.Ident); ok && id.Name == "panic" {
			return true
		}
		return false
	}
	// whole-line statement removal: from the start of the statement's line to the end of its last line
	stmtRange := func(n ast.Node) (int, int, bool) {
		s, e := off(n.Pos()), off(n.End())
		ls := s
		for ls > 0 && src[ls-1] != '\n' {
			ls--
		}
		if strings.TrimSpace(string(src[ls:s])) != "" {
			return 0, 0, false
		}
		le := e
		for le < len(src) && src[le] != '\n' {
			le++
		}
		if rest := strings.TrimSpace(string(src[e:le])); rest != "" && !strings.HasPrefix(rest, "//") {
			return 0, 0, false
		}
		if le < len(src) {
			le++
		}
		return ls, le, true
	}
	ast.Inspect(f, func(n ast.Node) bool {
		switch x := n.(type) {
		case *ast.FuncDecl:
			// skip pure formatting helpers
			if x.Name.Name == "String" || x.Name.Name == "Error" {
				return false
			}
		case *ast.IfStmt:
			if x.Cond != nil {
				edits = append(edits, edit{off(x.Cond.Pos()), off(x.Cond.End()), "!(" + string(src[off(x.Cond.Pos()):off(x.Cond.End())]) + ")", "negate-if", line(x.Cond.Pos())})
			}
		case *ast.BinaryExpr:
			if r, ok := swap[x.Op]; ok {
				edits = append(edits, edit{off(x.OpPos), off(x.OpPos) + len(x.Op.String()), r, "binop", line(x.OpPos)})
			}
		case *ast.ExprStmt:
			if _, ok := x.X.(*ast.CallExpr); ok && !isHook(x.X) {
				if s, e, ok := stmtRange(x); ok {
					edits = append(edits, edit{s, e, "", "del-call", line(x.Pos())})
				}
			}
		case *ast.DeferStmt:
			if isHook(x.Call) {
				return true
			}
			if s, e, ok := stmtRange(x); ok {
				edits = append(edits, edit{s, e, "", "del-defer", line(x.Pos())})
			}
		case *ast.BasicLit:
			if x.Kind == token.INT && len(x.Value) < 6 {
				var v int
				if _, err := fmt.Sscanf(x.Value, "%d", &v); err == nil && fmt.Sprint(v) == x.Value {
					edits = append(edits, edit{off(x.Pos()), off(x.End()), fmt.Sprint(v + 1), "intlit", line(x.Pos())})
				}
			}
		case *ast.IncDecStmt:
			r := "--"
			if x.Tok == token.DEC {
				r = "++"
			}
			edits = append(edits, edit{off(x.TokPos), off(x.TokPos) + 2, r, "incdec", line(x.TokPos)})
		case *ast.AssignStmt:
			if x.Tok == token.ASSIGN && len(x.Lhs) == 1 && len(x.Rhs) == 1 {
				if id, ok := x.Rhs[0].(*ast.Ident); ok && (id.Name == "nil" || id.Name == "false" || id.Name == "true") {
					if s, e, ok := stmtRange(x); ok {
						edits = append(edits, edit{s, e, "", "del-assign", line(x.Pos())})
					}
				}
			}
		}
		return true
	})
	sort.SliceStable(edits, func(i, j int) bool { return edits[i].start < edits[j].start })
	if err := os.MkdirAll(out, 0o755); err != nil {
		panic(err)
	}
	tmp, err := os.MkdirTemp("", "mutgen")
	if err != nil {
		panic(err)
	}
	defer os.RemoveAll(tmp)
	base := strings.ReplaceAll(strings.TrimSuffix(rel, ".go"), "/", "_")
	n := 0
	for _, e := range edits {
		mut := string(src[:e.start]) + e.repl + string(src[e.end:])
		a := filepath.Join(tmp, "a", rel)
		b := filepath.Join(tmp, "b", rel)
		os.MkdirAll(filepath.Dir(a), 0o755)
		os.MkdirAll(filepath.Dir(b), 0o755)
		os.WriteFile(a, src, 0o644)
		os.WriteFile(b, []byte(mut), 0o644)
		cmd := exec.Command("diff", "-u", filepath.Join("a", rel), filepath.Join("b", rel))
		cmd.Dir = tmp
		d, _ := cmd.Output()
		if len(d) == 0 {
			continue
		}
		name := fmt.Sprintf("%s.L%d.%s.%d.patch", base, e.line, e.op, n)
		os.WriteFile(filepath.Join(out, name), d, 0o644)
		n++
	}
	fmt.Printf("%s: %d mutants\n", rel, n)
}
