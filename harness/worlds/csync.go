package worlds

import (
	"context"
	"errors"
	"fmt"
	"runtime"
	"sync"
	"sync/atomic"
	"time"

	"github.com/aperturerobotics/util/csync"
	"github.com/aperturerobotics/util/verifhook"

	"verifharness/mon"
)

func init() {
	Registry["C01"] = Spec{
		Run: runC01, Workers: 16, GOMAXPROCS: 4,
		QuickTimeout: 5 * time.Minute, ThoroughTimeout: 30 * time.Minute,
		QuickFloor: 300, ThoroughFloor: 5000,
		RequiredCounters: []string{"acquires_checked", "slow_path_grants", "cancelled_while_blocked", "foreign_hold_double_release", "failed_trylock", "many_reader_cases", "MutexBlock", "RWMutexBlock"},
		Rule: "each case runs 2-12 actors for 20-200 operations each on one csync.Mutex / RWMutex (direct API, Locker and RLocker adapters): Lock with live, pre-cancelled and cancelled-while-blocked contexts, TryLock, first and repeated release, repeated release while another actor holds; " +
			"an occupancy word (writers<<32|readers) is incremented only after an acquire returned and decremented before the first release is called, and asserted after every increment; " +
			"non-trivial = at least one slow-path grant, cancel-while-blocked or foreign-hold double release happened; distinct = distinct orders of recorded acquire/release/cancel events",
		Assumptions: append([]string{"the occupancy word counts only certainly-held intervals, so two conflicting holders seen by it overlapped whatever the scheduler did to the harness"}, commonAssumptions...),
	}
	Registry["C02"] = Spec{
		Run: runC02, Workers: 16, GOMAXPROCS: 4,
		QuickTimeout: 6 * time.Minute, ThoroughTimeout: 40 * time.Minute,
		QuickFloor: 200, ThoroughFloor: 4000,
		RequiredCounters: []string{"quiescent_states_judged", "states_with_blocked_waiter", "writer_preference_probes", "final_trylock_probes", "cancelled_waiters", "cancel_trace_cases", "RWMutexBlock", "MutexBlock"},
		Rule: "each case is a controller-driven history on one csync.Mutex or RWMutex with 3-8 actors: bursts of 1-3 concurrent actions (start Lock read/write, release a holder, cancel a waiter, TryLock) are issued, then the process is brought to goroutine-state quiescence and the state is judged from harness facts " +
			"(holders, blocked waiters with live/cancelled contexts); the drain phase releases/cancels one at a time so that each event is the only one that can wake anybody; finally TryLock(write) and TryLock(read) must succeed; " +
			"a read acquire started alone while a writer is blocked must not be granted; non-trivial = at least one judged quiescent state had a blocked waiter or a writer-preference probe ran; distinct = distinct action/result sequences",
		Assumptions: append([]string{"quiescence (every goroutine blocked, from a stop-the-world runtime.Stack snapshot) is permanent for these timer-free types; a violation is reported only after a free-running grace period confirmed it"}, commonAssumptions...),
	}
}

// lockUnderTest abstracts Mutex / RWMutex and their sync.Locker adapters.
type lockUnderTest struct {
	kind string // mutex rwmutex
	m    *csync.Mutex
	rw   *csync.RWMutex
	mLk  sync.Locker
	wLk  sync.Locker
	rLk  sync.Locker
}

var lockerOrder atomic.Int64

func newLockUnderTest(rw bool) *lockUnderTest {
	l := &lockUnderTest{}
	if rw {
		l.kind = "rwmutex"
		l.rw = &csync.RWMutex{}
		// the two lockers are independent of each other, whichever is asked for first
		if lockerOrder.Add(1)%2 == 0 {
			l.wLk, l.rLk = l.rw.Locker(), l.rw.RLocker()
		} else {
			l.rLk = l.rw.RLocker()
			l.wLk = l.rw.Locker()
		}
	} else {
		l.kind = "mutex"
		l.m = &csync.Mutex{}
		l.mLk = l.m.Locker()
	}
	return l
}

func (l *lockUnderTest) lock(ctx context.Context, write bool) (func(), error) {
	if l.rw != nil {
		return l.rw.Lock(ctx, write)
	}
	return l.m.Lock(ctx)
}

func (l *lockUnderTest) tryLock(write bool) (func(), bool) {
	if l.rw != nil {
		return l.rw.TryLock(write)
	}
	return l.m.TryLock()
}

// excl reports whether an acquire in the given mode is exclusive.
func (l *lockUnderTest) excl(write bool) bool { return l.rw == nil || write }

const wUnit = int64(1) << 32

var errCauseTok = errors.New("cancel-cause-token")

// ---------------------------------------------------------------- C01

type c01World struct {
	c        *mon.Case
	l        *lockUnderTest
	occ      atomic.Int64
	blockers sync.Map // goid -> *atomic.Int64 (stamp of last "about to block")
}

func (w *c01World) acquired(actor string, excl bool, how string) {
	var v int64
	if excl {
		v = w.occ.Add(wUnit)
	} else {
		v = w.occ.Add(1)
	}
	w.c.Count("acquires_checked", 1)
	writers, readers := v>>32, v&(wUnit-1)
	ok := (writers == 1 && readers == 0) || writers == 0
	if w.l.rw == nil {
		ok = writers == 1 && readers == 0
	}
	if !ok {
		w.c.Violate("exclusion", w.l.kind+"-conflicting-holders", "after %s by %s (%s) the lock has %d write holder(s) and %d read holder(s) at the same instant", how, actor, map[bool]string{true: "exclusive", false: "shared"}[excl], writers, readers)
	}
}

func (w *c01World) releasing(excl bool) {
	if excl {
		w.occ.Add(-wUnit)
	} else {
		w.occ.Add(-1)
	}
}

func runC01(w *mon.Worker) {
	mon.SetMaxSleep(120 * time.Microsecond)
	mon.SetProb(0.2, verifhook.BcastEnter, verifhook.BcastExit, verifhook.MutexBlock, verifhook.RWMutexBlock)
	for i := 0; i < w.Share(w.Scale(3200, 100000)); i++ {
		rw := i%3 != 0
		w.Case("contention", map[string]any{"rwmutex": rw}, func(c *mon.Case) { c01Case(c, rw) })
	}
	mon.ClearProb()
	// "many readers" means many: counts just above the powers of two at which a narrowed counter would wrap
	for i := 0; i < w.Share(w.Scale(16, 64)); i++ {
		w.Case("many-readers", nil, c01ManyReadersCase)
	}
}

// c01ManyReadersCase: one goroutine takes a large number of read locks (both entry points), then a writer must be
// refused while they are held and admitted once they are released.
func c01ManyReadersCase(c *mon.Case) {
	r := c.Rng
	sizes := []int{255, 256, 257, 65535, 65536, 65537, 70001}
	n := sizes[r.IntN(len(sizes))]
	var m csync.RWMutex
	rels := make([]func(), 0, n)
	ctx := context.Background()
	for i := 0; i < n; i++ {
		if i%2 == 0 {
			rel, ok := m.TryLock(false)
			if !ok {
				c.Violate("exclusion", "rwmutex-reader-refused-with-only-readers", "TryLock(read) failed with %d read holders and no writer", i)
				return
			}
			rels = append(rels, rel)
		} else {
			rel, err := m.Lock(ctx, false)
			if err != nil {
				c.Violate("exclusion", "lock-foreign-error", "Lock(read) returned %v with %d read holders and no writer", err, i)
				return
			}
			rels = append(rels, rel)
		}
		if i == n-1 || i == n/2 {
			if rel, ok := m.TryLock(true); ok {
				c.Violate("exclusion", "rwmutex-conflicting-holders", "TryLock(write) succeeded while %d read locks are held", i+1)
				rel()
				return
			}
		}
	}
	c.Count("many_reader_cases", 1)
	c.Count("acquires_checked", int64(n))
	c.NonTrivial()
	c.Mix(uint64(n))
	for i, rel := range rels {
		rel()
		if i == len(rels)-2 {
			if rel, ok := m.TryLock(true); ok {
				c.Violate("exclusion", "rwmutex-conflicting-holders", "TryLock(write) succeeded while 1 of %d read locks is still held", n)
				rel()
				return
			}
		}
	}
	rel, ok := m.TryLock(true)
	if !ok {
		c.Violate("exclusion", "rwmutex-unobtainable-without-holder", "TryLock(write) fails after all %d read locks were released", n)
		return
	}
	rel()
}

func c01Case(c *mon.Case, rw bool) {
	r := c.Rng
	w := &c01World{c: c, l: newLockUnderTest(rw)}
	site := verifhook.MutexBlock
	if rw {
		site = verifhook.RWMutexBlock
	}
	mon.OnSite(site, func(obj any) {
		if v, ok := w.blockers.Load(mon.GoID()); ok {
			v.(*atomic.Int64).Store(c.Stamp())
		}
	})
	defer mon.OnSite(site, nil)
	nActors := 2 + r.IntN(11)
	nOps := 20 + r.IntN(181)
	if nActors > 6 {
		nOps = 20 + r.IntN(60)
	}
	writeBias := 1 + r.IntN(4) // 1 in writeBias+1 ... mix of modes
	useAdapters := r.IntN(4) == 0
	start := make(chan struct{})
	for a := 0; a < nActors; a++ {
		a := a
		seed := r.Uint64()
		name := fmt.Sprint("a", a)
		c.Go(name, func() {
			var blockedAt atomic.Int64
			w.blockers.Store(mon.GoID(), &blockedAt)
			x := seed | 1
			rnd := func(n uint64) uint64 {
				x ^= x << 13
				x ^= x >> 7
				x ^= x << 17
				return x % n
			}
			var oldRel func()
			hold := func(excl bool, rel func(), how string) {
				w.acquired(name, excl, how)
				switch rnd(3) {
				case 1:
					runtime.Gosched()
				case 2:
					for i := 0; i < int(rnd(300)); i++ {
						spinSink2.Add(0)
					}
				}
				// sometimes probe with TryLock while holding: must fail for conflicting modes
				if rnd(4) == 0 {
					pw := rnd(2) == 0
					prel, ok := w.l.tryLock(pw)
					if ok {
						// granted: only legal for shared+shared
						w.acquired(name, w.l.excl(pw), "TryLock while holding")
						w.releasing(w.l.excl(pw))
						prel()
					} else {
						c.Count("failed_trylock", 1)
						if prel != nil {
							c.Violate("exclusion", "failed-trylock-returns-release", "TryLock returned false together with a non-nil release function")
						}
					}
				}
				c.Rec(name, "release "+how, nil)
				w.releasing(excl)
				if rnd(5) == 0 {
					// the same release function called from two goroutines at once counts once
					var rwg sync.WaitGroup
					rwg.Add(2)
					go func() { defer rwg.Done(); rel() }()
					go func() { defer rwg.Done(); rel() }()
					rwg.Wait()
					c.Count("concurrent_double_release", 1)
				} else {
					rel()
				}
				oldRel = rel
			}
			<-start
			for op := 0; op < nOps; op++ {
				write := rnd(uint64(writeBias)+1) == 0
				excl := w.l.excl(write)
				switch k := rnd(10); {
				case k < 4: // Lock with a live context
					blockedAt.Store(0)
					c.Rec(name, fmt.Sprint("call Lock write=", write), nil)
					rel, err := w.l.lock(context.Background(), write)
					if err != nil || rel == nil {
						c.Violate("exclusion", "lock-live-ctx-failed", "Lock with a live context returned (%v, err %v)", rel != nil, err)
						return
					}
					if blockedAt.Load() != 0 {
						c.Count("slow_path_grants", 1)
						c.NonTrivial()
					}
					hold(excl, rel, "Lock")
				case k < 6: // Lock with a context cancelled before or while blocked
					// context kinds: plain cancel, cancel with a cause, deadline: Lock must report context.Canceled for all
					var ctx context.Context
					var cancel func()
					ctxKind := rnd(4)
					switch ctxKind {
					case 1:
						cctx, ccancel := context.WithCancelCause(context.Background())
						ctx, cancel = cctx, func() { ccancel(errCauseTok) }
					case 2:
						var cc context.CancelFunc
						ctx, cc = context.WithTimeout(context.Background(), time.Duration(20+rnd(150))*time.Microsecond)
						cancel = cc
					default:
						var cc context.CancelFunc
						ctx, cc = context.WithCancel(context.Background())
						cancel = cc
					}
					pre := rnd(3) == 0
					var cancelStamp atomic.Int64
					if pre {
						cancelStamp.Store(c.Rec(name, "cancel before Lock", nil))
						cancel()
					} else if ctxKind != 2 {
						delay := rnd(40)
						go func() {
							for i := uint64(0); i < delay; i++ {
								runtime.Gosched()
							}
							cancelStamp.Store(c.Stamp())
							cancel()
						}()
					}
					blockedAt.Store(0)
					c.Rec(name, fmt.Sprint("call Lock(cancellable) write=", write), nil)
					rel, err := w.l.lock(ctx, write)
					ret := c.Stamp()
					if err != nil {
						if err != context.Canceled {
							c.Violate("exclusion", "lock-foreign-error", "Lock returned error %v for a cancelled context of kind %d (0/3 plain, 1 cancelled with a cause, 2 deadline); the documented error is context.Canceled", err, ctxKind)
						}
						if rel != nil {
							c.Violate("exclusion", "failed-lock-returns-release", "Lock returned an error together with a non-nil release function")
						}
						if ctxKind == 2 && !pre {
							if ctx.Err() == nil {
								c.Violate("exclusion", "lock-canceled-without-cancel", "Lock returned context.Canceled although its deadline context is not done")
							}
						} else if cs := cancelStamp.Load(); cs == 0 || cs > ret {
							c.Violate("exclusion", "lock-canceled-without-cancel", "Lock returned context.Canceled at %d, its context was cancelled at %d (0 = not yet)", ret, cs)
						}
						if blockedAt.Load() != 0 {
							c.Count("cancelled_while_blocked", 1)
							c.NonTrivial()
						}
						c.Rec(name, "Lock cancelled", nil)
						cancel()
						continue
					}
					if blockedAt.Load() != 0 {
						c.Count("slow_path_grants", 1)
						c.NonTrivial()
					}
					hold(excl, rel, "Lock(cancellable)")
					cancel()
				case k < 8: // TryLock
					rel, ok := w.l.tryLock(write)
					if !ok {
						c.Count("failed_trylock", 1)
						if rel != nil {
							c.Violate("exclusion", "failed-trylock-returns-release", "TryLock returned false together with a non-nil release function")
						}
						c.Rec(name, "TryLock failed", nil)
						continue
					}
					c.Rec(name, fmt.Sprint("TryLock ok write=", write), nil)
					hold(excl, rel, "TryLock")
				case k < 9: // repeated release, preferably while somebody else holds
					if oldRel == nil {
						continue
					}
					for i := 0; i < 30 && w.occ.Load() == 0; i++ {
						runtime.Gosched()
					}
					foreign := w.occ.Load() != 0
					c.Rec(name, fmt.Sprint("release again, foreign holder=", foreign), nil)
					oldRel()
					if foreign {
						c.Count("foreign_hold_double_release", 1)
						c.NonTrivial()
						// if the repeated release freed the other holder's lock, this probe gets in
						if rel, ok := w.l.tryLock(true); ok {
							w.acquired(name, true, "TryLock after repeated release")
							w.releasing(true)
							rel()
						}
					}
				default: // sync.Locker adapters
					if !useAdapters {
						continue
					}
					var lk sync.Locker
					ex := true
					if w.l.rw == nil {
						lk = w.l.mLk
					} else if write {
						lk = w.l.wLk
					} else {
						lk, ex = w.l.rLk, false
					}
					c.Rec(name, fmt.Sprint("Locker.Lock excl=", ex), nil)
					lk.Lock()
					w.acquired(name, ex, "Locker.Lock")
					runtime.Gosched()
					w.releasing(ex)
					lk.Unlock()
					c.Rec(name, "Locker.Unlock", nil)
				}
			}
		})
	}
	close(start)
	finished, hung := c.WaitActorsOrHang(25 * time.Second)
	if hung {
		v := w.occ.Load()
		c.Violate("exclusion", w.l.kind+"-unobtainable-without-holder", "every actor is blocked in Lock in a quiescent process while the harness knows of %d write and %d read holders that have not released: a failed Lock, a failed TryLock or a repeated release changed the lock's state", v>>32, v&(wUnit-1))
		return
	}
	if !finished {
		c.Inconclusive("actors did not finish")
		return
	}
	if v := w.occ.Load(); v != 0 {
		c.Violate("exclusion", "harness-occupancy-nonzero", "harness bookkeeping error: occupancy %d at the end", v)
	}
	// everything was released: both modes must be obtainable
	if rel, ok := w.l.tryLock(true); !ok {
		c.Violate("exclusion", w.l.kind+"-stuck-after-all-released", "TryLock(write) fails although every holder released and every Lock call returned")
	} else {
		rel()
	}
}

// ---------------------------------------------------------------- C02

type c02Actor struct {
	id   int
	cmds chan func()
	// written by the actor goroutine, read by the controller after quiescence
	pending   atomic.Bool
	gotLock   atomic.Bool
	gotErr    atomic.Pointer[error]
	rel       func()
	write     bool
	ctx       context.Context
	cancel    func()
	cancelled bool
	holding   bool
	startedAt int64
	// blockedSeenAt: stamp of the first quiescent point at which this pending call was seen blocked
	blockedSeenAt int64
}

func runC02(w *mon.Worker) {
	mon.SetMaxSleep(100 * time.Microsecond)
	for i := 0; i < w.Share(w.Scale(6400, 480000)); i++ {
		rw := i%4 != 0
		mon.SetProb(0.2, verifhook.BcastEnter, verifhook.BcastExit, verifhook.MutexBlock, verifhook.RWMutexBlock)
		w.Case("controller", map[string]any{"rwmutex": rw}, func(c *mon.Case) { c02Case(c, rw) })
	}
	mon.ClearProb()
	// a cancelled writer is gone by the time its Lock call returns, also when the internal lock is contended
	mon.SetProb(0.5, verifhook.BcastLocked)
	mon.SetProb(0.2, verifhook.BcastEnter, verifhook.BcastExit)
	for i := 0; i < w.Share(w.Scale(1600, 100000)); i++ {
		w.Case("cancel-trace", nil, c02CancelTraceCase)
	}
	mon.ClearProb()
	for i := 0; i < w.Share(w.Scale(320, 20000)); i++ {
		w.Case("locker-preference", nil, c02LockerPreferenceCase)
	}
	for i := 0; i < w.Share(w.Scale(64, 2000)); i++ {
		w.Case("double-release", nil, c02DoubleReleaseCase)
		w.Case("shared-locker", nil, c02SharedLockerCase)
	}
}

// c02LockerPreferenceCase: writer preference also holds for read locks taken through the sync.Locker adapters, including
// a second Lock on a shared RLocker that already holds a read lock (that is another caller, not a recursive one).
func c02LockerPreferenceCase(c *mon.Case) {
	r := c.Rng
	var m csync.RWMutex
	shared := m.RLocker()
	second := shared
	if r.IntN(3) == 0 {
		second = m.RLocker()
	}
	shared.Lock()
	arrived := make(chan struct{})
	var once sync.Once
	mon.OnSite(verifhook.RWMutexBlock, func(obj any) {
		if obj == any(&m) {
			once.Do(func() { close(arrived) })
		}
	})
	defer mon.OnSite(verifhook.RWMutexBlock, nil)
	var wGot, rGot atomic.Int64
	c.Go("writer", func() {
		rel, err := m.Lock(context.Background(), true)
		if err == nil {
			wGot.Store(c.Rec("writer", "acquired", nil))
			rel()
		}
	})
	select {
	case <-arrived:
	case <-time.After(5 * time.Second):
		c.Inconclusive("writer never blocked")
		shared.Unlock()
		return
	}
	if !mon.Quiesce(5 * time.Second) {
		c.Inconclusive("no quiescence with the writer blocked")
		shared.Unlock()
		return
	}
	startedAt := c.Rec("d", "second reader starts Lock through the RLocker", nil)
	c.Go("reader2", func() {
		second.Lock()
		rGot.Store(c.Rec("reader2", "acquired", nil))
		second.Unlock()
	})
	c.Count("locker_preference_templates", 1)
	c.NonTrivial()
	if !mon.Quiesce(5 * time.Second) {
		c.Inconclusive("no quiescence")
		shared.Unlock()
		return
	}
	if rGot.Load() != 0 && wGot.Load() == 0 {
		c.Violate("waiters", "reader-granted-while-writer-waits", "a read Lock through RLocker (same locker object as the holder: %v) started at %d while a writer was blocked; it was granted although that writer is still waiting", second == shared, startedAt)
	}
	shared.Unlock()
	if !c.WaitActors(5 * time.Second) {
		if mon.Quiesce(5 * time.Second) {
			c.Violate("waiters", "rwmutex-grantable-waiter-blocked-on-free-lock", "after the first reader unlocked, the waiting writer / second reader never finished in a quiescent process (writer acquired at %d, reader at %d)", wGot.Load(), rGot.Load())
		} else {
			c.Inconclusive("actors did not finish")
		}
		return
	}
	if wGot.Load() == 0 || rGot.Load() == 0 {
		c.Violate("waiters", "lock-foreign-error", "writer or second reader returned without acquiring")
	}
}

// c02CancelTraceCase: a reader holds; a writer blocks and is cancelled while other goroutines hammer the lock with
// TryLock(read). The moment the writer's Lock returns context.Canceled it has left no trace: a reader is admitted at once.
func c02CancelTraceCase(c *mon.Case) {
	r := c.Rng
	var m csync.RWMutex
	relR, ok := m.TryLock(false)
	if !ok {
		c.Violate("waiters", "rwmutex-reader-refused-on-idle-lock", "TryLock(read) failed on a fresh RWMutex")
		return
	}
	arrived := make(chan struct{})
	var once sync.Once
	mon.OnSite(verifhook.RWMutexBlock, func(obj any) {
		if obj == any(&m) {
			once.Do(func() { close(arrived) })
		}
	})
	defer mon.OnSite(verifhook.RWMutexBlock, nil)
	wctx, wcancel := context.WithCancel(context.Background())
	defer wcancel()
	var werr error
	var probeOK, gotLock atomic.Bool
	wDone := make(chan struct{})
	c.Go("w", func() {
		defer close(wDone)
		rel, err := m.Lock(wctx, true)
		werr = err
		if err == nil {
			gotLock.Store(true)
			rel()
			return
		}
		c.Rec("w", "Lock returned", fmt.Sprint(err))
		if rel2, ok := m.TryLock(false); ok {
			probeOK.Store(true)
			rel2()
		}
	})
	select {
	case <-arrived:
	case <-time.After(5 * time.Second):
		c.Inconclusive("writer never blocked")
		return
	}
	var stop atomic.Bool
	nh := 1 + r.IntN(4)
	for i := 0; i < nh; i++ {
		c.Go(fmt.Sprint("h", i), func() {
			for !stop.Load() {
				if rel, ok := m.TryLock(false); ok {
					rel()
				}
			}
		})
	}
	for i := 0; i < r.IntN(40); i++ {
		runtime.Gosched()
	}
	c.Rec("d", "cancel the blocked writer", nil)
	wcancel()
	select {
	case <-wDone:
	case <-time.After(5 * time.Second):
	}
	stop.Store(true)
	relR()
	if !c.WaitActors(5 * time.Second) {
		c.Inconclusive("actors did not finish")
		return
	}
	c.Count("cancel_trace_cases", 1)
	c.NonTrivial()
	c.Mix(uint64(nh))
	switch {
	case gotLock.Load():
		c.Violate("waiters", "rwmutex-writer-granted-while-reader-holds", "a writer was granted the lock while a reader held it")
	case werr != context.Canceled:
		c.Violate("waiters", "lock-foreign-error", "the cancelled writer's Lock returned %v", werr)
	case !probeOK.Load():
		c.Violate("waiters", "rwmutex-cancelled-writer-left-trace", "right after the cancelled writer's Lock returned context.Canceled, TryLock(read) by the same goroutine failed although only readers hold the lock and no writer waits: the departed writer is still counted")
	}
}

func c02Case(c *mon.Case, rw bool) {
	r := c.Rng
	l := newLockUnderTest(rw)
	n := 3 + r.IntN(6)
	actors := make([]*c02Actor, n)
	for i := range actors {
		a := &c02Actor{id: i, cmds: make(chan func())}
		actors[i] = a
		go func() {
			for f := range a.cmds {
				f()
			}
		}()
	}
	defer func() {
		for _, a := range actors {
			if a.cancel != nil {
				a.cancel()
			}
			close(a.cmds)
		}
	}()
	name := func(a *c02Actor) string { return fmt.Sprint("a", a.id) }

	preCancelNext := false
	startLock := func(a *c02Actor, write bool) {
		a.write = write
		if a.id%2 == 1 {
			cctx, ccancel := context.WithCancelCause(context.Background())
			a.ctx, a.cancel = cctx, func() { ccancel(errCauseTok) }
		} else {
			a.ctx, a.cancel = context.WithCancel(context.Background())
		}
		a.cancelled = false
		a.pending.Store(true)
		a.gotLock.Store(false)
		a.gotErr.Store(nil)
		a.startedAt = c.Rec(name(a), fmt.Sprint("start Lock write=", write), nil)
		ctx := a.ctx
		if preCancelNext {
			preCancelNext = false
			a.cancelled = true
			a.cancel()
		}
		a.cmds <- func() {
			rel, err := l.lock(ctx, write)
			if err != nil {
				a.gotErr.Store(&err)
				if rel != nil {
					c.Violate("waiters", "failed-lock-returns-release", "Lock returned an error together with a release function")
				}
			} else {
				a.rel = rel
				a.gotLock.Store(true)
			}
			a.pending.Store(false)
		}
	}
	release := func(a *c02Actor) {
		c.Rec(name(a), "release", nil)
		rel := a.rel
		a.holding = false
		a.rel = nil
		a.cmds <- func() { rel() }
	}
	cancelWait := func(a *c02Actor) {
		c.Rec(name(a), "cancel", nil)
		a.cancelled = true
		c.Count("cancelled_waiters", 1)
		a.cancel()
	}

	idle := func() (out []*c02Actor) {
		for _, a := range actors {
			if !a.holding && !a.pending.Load() && a.rel == nil && a.startedAt == 0 {
				out = append(out, a)
			}
		}
		return
	}
	holders := func() (out []*c02Actor) {
		for _, a := range actors {
			if a.holding {
				out = append(out, a)
			}
		}
		return
	}
	// pendingList is only meaningful at quiescence
	pendingList := func() (out []*c02Actor) {
		for _, a := range actors {
			if a.pending.Load() {
				out = append(out, a)
			}
		}
		return
	}

	var actionLog []string
	type tryRead struct {
		a     *c02Actor
		stamp int64
	}
	var tryReads []tryRead
	settle := func() bool {
		if !mon.Quiesce(10 * time.Second) {
			c.Inconclusive("no quiescence")
			return false
		}
		// absorb results
		for _, a := range actors {
			if a.holding || a.pending.Load() || a.startedAt == 0 {
				continue
			}
			if a.gotLock.Load() && a.rel != nil {
				a.holding = true
				if rw && !a.write {
					// a read acquire that started after a writer was seen blocked must not be granted
					// before that writer acquired or gave up
					for _, wtr := range actors {
						if wtr != a && wtr.write && wtr.pending.Load() && !wtr.cancelled && wtr.blockedSeenAt != 0 && wtr.blockedSeenAt < a.startedAt {
							c.Violate("waiters", "reader-granted-while-writer-waits", "reader a%d started its Lock at %d, after writer a%d had been seen blocked (quiescent at %d); the reader holds the lock now while that writer is still waiting and was not cancelled. Actions: %v", a.id, a.startedAt, wtr.id, wtr.blockedSeenAt, actionLog)
						}
					}
				}
				a.startedAt = 0
				a.blockedSeenAt = 0
				c.Rec(name(a), "acquired", nil)
			} else if e := a.gotErr.Load(); e != nil {
				a.startedAt = 0
				a.gotErr.Store(nil)
				c.Rec(name(a), "returned "+(*e).Error(), nil)
				if *e != context.Canceled {
					c.Violate("waiters", "lock-foreign-error", "Lock returned %v for a cancelled context (actor %d; odd actors cancel with a cause); the documented error is context.Canceled", *e, a.id)
				}
				if !a.cancelled {
					c.Violate("waiters", "lock-canceled-without-cancel", "Lock of actor %d returned context.Canceled although its context was never cancelled", a.id)
				}
				a.blockedSeenAt = 0
			}
		}
		// a successful TryLock(read) that was called after a writer had been seen blocked, while that writer is
		// still waiting (it cannot have acquired: the reader still holds) and was not cancelled
		for _, tr := range tryReads {
			if !tr.a.holding {
				continue
			}
			for _, wtr := range actors {
				if wtr.write && wtr.pending.Load() && !wtr.cancelled && wtr.blockedSeenAt != 0 && wtr.blockedSeenAt < tr.stamp {
					c.Violate("waiters", "reader-granted-while-writer-waits", "TryLock(read) by a%d (at %d) succeeded after writer a%d had been seen blocked (quiescent at %d); the writer is still waiting and was not cancelled. Actions: %v", tr.a.id, tr.stamp, wtr.id, wtr.blockedSeenAt, actionLog)
				}
			}
		}
		tryReads = tryReads[:0]
		// every call still pending at this quiescent point is blocked
		now := c.Stamp()
		for _, a := range actors {
			if a.pending.Load() && a.blockedSeenAt == 0 {
				a.blockedSeenAt = now
			}
		}
		return true
	}
	describe := func() string {
		s := ""
		for _, a := range actors {
			switch {
			case a.holding:
				s += fmt.Sprintf(" a%d:holds(%s)", a.id, mode(l, a.write))
			case a.pending.Load():
				s += fmt.Sprintf(" a%d:blocked(%s,cancelled=%v)", a.id, mode(l, a.write), a.cancelled)
			}
		}
		return s
	}
	judge := func(when string) bool {
		c.Count("quiescent_states_judged", 1)
		hs, ps := holders(), pendingList()
		if len(ps) > 0 {
			c.Count("states_with_blocked_waiter", 1)
			c.NonTrivial()
		}
		var hw, hr int
		for _, h := range hs {
			if l.excl(h.write) {
				hw++
			} else {
				hr++
			}
		}
		var liveW, liveR, dead []*c02Actor
		for _, p := range ps {
			switch {
			case p.cancelled:
				dead = append(dead, p)
			case l.excl(p.write):
				liveW = append(liveW, p)
			default:
				liveR = append(liveR, p)
			}
		}
		bad := ""
		switch {
		case len(dead) > 0:
			bad = "cancelled-waiter-still-blocked"
		case hw == 0 && hr == 0 && len(liveW)+len(liveR) > 0:
			bad = "grantable-waiter-blocked-on-free-lock"
		case hw == 0 && hr > 0 && len(liveW) == 0 && len(liveR) > 0:
			bad = "reader-blocked-with-only-readers-holding"
		}
		if bad == "" {
			return true
		}
		// grace period: may only retract
		if !mon.QuiesceConfirmed(100*time.Millisecond, 10*time.Second) {
			c.Inconclusive("no quiescence in the confirmation round")
			return false
		}
		still := false
		for _, p := range ps {
			if p.pending.Load() {
				still = true
			}
		}
		if !still {
			return settle()
		}
		c.Violate("waiters", l.kind+"-"+bad, "%s: in a quiescent process%s — nobody can take a step, yet the lock's own rules admit a blocked waiter (or a cancelled waiter has not returned). Actions so far: %v", when, describe(), actionLog)
		return false
	}

	nBursts := 4 + r.IntN(14)
	for b := 0; b < nBursts; b++ {
		k := 1 + r.IntN(3)
		for j := 0; j < k; j++ {
			id, hs, ps := idle(), holders(), pendingList()
			var choices []int
			if len(id) > 0 {
				choices = append(choices, 0, 0, 1)
			}
			if len(hs) > 0 {
				choices = append(choices, 2, 2)
			}
			// cancelling is only chosen for calls known to be pending at the last quiescence
			var cancellable []*c02Actor
			for _, p := range ps {
				if !p.cancelled {
					cancellable = append(cancellable, p)
				}
			}
			if len(cancellable) > 0 {
				choices = append(choices, 3)
			}
			if len(choices) == 0 {
				break
			}
			switch choices[r.IntN(len(choices))] {
			case 0:
				a := id[r.IntN(len(id))]
				write := r.IntN(3) == 0
				if r.IntN(8) == 0 {
					// a Lock whose context is already cancelled: it may succeed or fail, but must leave no trace if it fails
					actionLog = append(actionLog, fmt.Sprintf("a%d.Lock(%s, already cancelled ctx)", a.id, mode(l, write)))
					preCancelNext = true
					startLock(a, write)
					c.Count("precancelled_lock_calls", 1)
					c.Count("cancelled_waiters", 1)
					break
				}
				actionLog = append(actionLog, fmt.Sprintf("a%d.Lock(%s)", a.id, mode(l, write)))
				startLock(a, write)
			case 1:
				a := id[r.IntN(len(id))]
				write := r.IntN(3) == 0
				a.write = write
				done := make(chan struct{})
				var ok bool
				var rel func()
				a.cmds <- func() { rel, ok = l.tryLock(write); close(done) }
				<-done
				actionLog = append(actionLog, fmt.Sprintf("a%d.TryLock(%s)=%v", a.id, mode(l, write), ok))
				tryStamp := c.Rec(name(a), fmt.Sprint("TryLock write=", write, " -> ", ok), nil)
				if ok && rw && !write {
					tryReads = append(tryReads, tryRead{a, tryStamp})
				}
				if ok {
					a.rel, a.holding = rel, true
				} else if rel != nil {
					c.Violate("waiters", "failed-trylock-returns-release", "TryLock returned false with a release function")
				}
			case 2:
				a := hs[r.IntN(len(hs))]
				actionLog = append(actionLog, fmt.Sprintf("a%d.release", a.id))
				release(a)
			case 3:
				a := cancellable[r.IntN(len(cancellable))]
				actionLog = append(actionLog, fmt.Sprintf("a%d.cancel", a.id))
				cancelWait(a)
			}
		}
		if !settle() || !judge(fmt.Sprintf("after burst %d", b)) {
			return
		}
		// writer preference probe: with a writer blocked, a read acquire started alone must not be granted
		if rw && r.IntN(3) == 0 {
			var blockedWriter *c02Actor
			for _, p := range pendingList() {
				if p.write && !p.cancelled {
					blockedWriter = p
				}
			}
			id := idle()
			if blockedWriter != nil && len(id) > 0 {
				a := id[0]
				c.Count("writer_preference_probes", 1)
				c.NonTrivial()
				if r.IntN(2) == 0 {
					done := make(chan struct{})
					var ok bool
					var rel func()
					a.cmds <- func() { rel, ok = l.tryLock(false); close(done) }
					<-done
					actionLog = append(actionLog, fmt.Sprintf("probe a%d.TryLock(read)=%v", a.id, ok))
					if ok {
						c.Violate("waiters", "reader-granted-while-writer-waits", "TryLock(read) succeeded while writer a%d has been blocked in Lock since before the call:%s. Actions: %v", blockedWriter.id, describe(), actionLog)
						rel()
						return
					}
				} else {
					actionLog = append(actionLog, fmt.Sprintf("probe a%d.Lock(read)", a.id))
					startLock(a, false)
					if !settle() {
						return
					}
					if a.holding && blockedWriter.pending.Load() {
						c.Violate("waiters", "reader-granted-while-writer-waits", "Lock(read) started while writer a%d was already blocked was granted before that writer acquired or gave up:%s. Actions: %v", blockedWriter.id, describe(), actionLog)
						return
					}
					if !judge("after the writer-preference probe") {
						return
					}
				}
			}
		}
	}
	// drain: one event at a time
	for guard := 0; guard < 200; guard++ {
		hs, ps := holders(), pendingList()
		if len(hs) == 0 && len(ps) == 0 {
			break
		}
		var cancellable []*c02Actor
		for _, p := range ps {
			if !p.cancelled {
				cancellable = append(cancellable, p)
			}
		}
		if len(hs) > 0 && (len(cancellable) == 0 || r.IntN(2) == 0) {
			a := hs[r.IntN(len(hs))]
			actionLog = append(actionLog, fmt.Sprintf("drain a%d.release", a.id))
			release(a)
		} else if len(cancellable) > 0 {
			a := cancellable[r.IntN(len(cancellable))]
			actionLog = append(actionLog, fmt.Sprintf("drain a%d.cancel", a.id))
			cancelWait(a)
		} else {
			// only cancelled waiters remain blocked and nobody holds: judge() reports it
		}
		if !settle() || !judge(fmt.Sprintf("drain step %d", guard)) {
			return
		}
	}
	// as if the cancelled calls had never been made
	c.Count("final_trylock_probes", 1)
	c.Mix(mon.HashBytes([]byte(fmt.Sprint(actionLog))))
	rel, ok := l.tryLock(true)
	if !ok {
		c.Violate("waiters", l.kind+"-trylock-write-fails-on-idle-lock", "every holder released and every waiter returned, yet TryLock(write) fails. Actions: %v", actionLog)
		return
	}
	rel()
	rel() // repeated release must not matter
	rel2, ok := l.tryLock(false)
	if !ok {
		c.Violate("waiters", l.kind+"-trylock-read-fails-on-idle-lock", "every holder released and every waiter returned, yet TryLock(read) fails (a leaked waiting-writer count?). Actions: %v", actionLog)
		return
	}
	rel2()
}

func mode(l *lockUnderTest, write bool) string {
	if l.rw == nil {
		return "excl"
	}
	if write {
		return "write"
	}
	return "read"
}

// c02DoubleReleaseCase: one release function (of a TryLock or a Lock, read or write) is called by two goroutines at the
// same moment, a few thousand times. It counts once: afterwards the lock is free for a writer and for a reader.
func c02DoubleReleaseCase(c *mon.Case) {
	r := c.Rng
	var m csync.RWMutex
	iters := 1000 + r.IntN(1500)
	for it := 0; it < iters; it++ {
		write := it%3 == 0
		var rel func()
		if it%2 == 0 {
			rl, ok := m.TryLock(write)
			if !ok {
				c.Violate("waiters", "rwmutex-trylock-write-fails-on-idle-lock", "iteration %d: TryLock(write=%v) failed on a lock nobody holds (after %d concurrent double releases)", it, write, it)
				return
			}
			rel = rl
		} else {
			rl, err := m.Lock(context.Background(), write)
			if err != nil {
				c.Violate("waiters", "lock-foreign-error", "Lock returned %v", err)
				return
			}
			rel = rl
		}
		start := make(chan struct{})
		var wg sync.WaitGroup
		for g := 0; g < 2; g++ {
			wg.Add(1)
			go func() {
				defer wg.Done()
				<-start
				rel()
			}()
		}
		close(start)
		wg.Wait()
	}
	c.Count("concurrent_double_release_rounds", int64(iters))
	c.NonTrivial()
	done := make(chan bool, 1)
	go func() {
		rel, err := m.Lock(context.Background(), true)
		if err == nil {
			rel()
		}
		done <- err == nil
	}()
	select {
	case ok := <-done:
		if !ok {
			c.Violate("waiters", "lock-foreign-error", "final Lock(write) failed")
		}
	case <-time.After(3 * time.Second):
		if mon.Quiesce(5 * time.Second) {
			c.Violate("waiters", "rwmutex-grantable-waiter-blocked-on-free-lock", "after %d rounds in which one release function was called by two goroutines at once, nobody holds the lock, yet a writer stays blocked in a quiescent process (the holder count went wrong)", iters)
		} else {
			c.Inconclusive("final writer did not return")
		}
	}
}

// c02SharedLockerCase: one sync.Locker adapter (Mutex.Locker, RWMutex.Locker, RWMutex.RLocker) is shared by several
// goroutines that lock and unlock it in a tight loop, the way a sync.Cond or a plain critical section would. Every
// Lock is grantable as soon as the holder unlocks: nobody may panic, nobody may stay blocked, the idle lock is free.
func c02SharedLockerCase(c *mon.Case) {
	r := c.Rng
	kind := r.IntN(3)
	var lk sync.Locker
	var m csync.Mutex
	var rw csync.RWMutex
	probe := func() (func(), bool) { return rw.TryLock(true) }
	name := "RWMutex.Locker"
	switch kind {
	case 0:
		lk, name = m.Locker(), "Mutex.Locker"
		probe = m.TryLock
	case 1:
		lk = rw.Locker()
	default:
		lk, name = rw.RLocker(), "RWMutex.RLocker"
	}
	n, per := 2+r.IntN(7), 1500+r.IntN(2500)
	var panics atomic.Int64
	var firstPanic atomic.Value
	var inside atomic.Int64
	start := make(chan struct{})
	for g := 0; g < n; g++ {
		c.Go(fmt.Sprint("l", g), func() {
			<-start
			for i := 0; i < per; i++ {
				func() {
					defer func() {
						if p := recover(); p != nil {
							panics.Add(1)
							firstPanic.CompareAndSwap(nil, fmt.Sprint(p))
						}
					}()
					lk.Lock()
					if v := inside.Add(1); v != 1 && kind != 2 {
						c.Violate("waiters", "locker-conflicting-holders", "%s shared by %d goroutines: %d goroutines are between Lock and Unlock", name, n, v)
					}
					if i%64 == 0 {
						runtime.Gosched()
					}
					inside.Add(-1)
					lk.Unlock()
				}()
			}
		})
	}
	close(start)
	finished, hung := c.WaitActorsOrHang(25 * time.Second)
	c.Count("shared_locker_rounds", int64(n*per))
	c.NonTrivial()
	if p := panics.Load(); p != 0 {
		c.Violate("waiters", "shared-locker-panics", "%s shared by %d goroutines, each pairing every Lock with one Unlock: %d calls panicked, first: %v", name, n, p, firstPanic.Load())
		return
	}
	if hung {
		c.Violate("waiters", "grantable-waiter-blocked-on-free-lock", "%s shared by %d goroutines, each pairing every Lock with one Unlock: every goroutine is blocked in Lock in a quiescent process", name, n)
		return
	}
	if !finished {
		c.Inconclusive("actors did not finish")
		return
	}
	if rel, ok := probe(); !ok {
		c.Violate("waiters", "idle-lock-refuses-trylock", "%s: after every Lock was paired with its Unlock, TryLock(write) fails on the idle lock", name)
	} else {
		rel()
	}
}
