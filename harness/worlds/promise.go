package worlds

import (
	"context"
	"errors"
	"fmt"
	"runtime"
	"sync"
	"sync/atomic"
	"time"

	"github.com/anishathalye/porcupine"
	"github.com/aperturerobotics/util/memo"
	"github.com/aperturerobotics/util/promise"
	"github.com/aperturerobotics/util/verifhook"

	"verifharness/mon"
)

func init() {
	Registry["C11"] = Spec{
		Run: runC11, Workers: 16, GOMAXPROCS: 4,
		QuickTimeout: 6 * time.Minute, ThoroughTimeout: 30 * time.Minute,
		QuickFloor: 2000, ThoroughFloor: 40000,
		RequiredCounters: []string{"promise_histories_linearizable", "single_winner_checked", "awaits_judged", "container_awaits_judged", "container_quiescent_judgements", "sentinel_error_results", "gated_templates", "PromiseSetMid"},
		Rule: "cases: (a) 1-6 concurrent SetResult callers and 1-8 awaiters of the three kinds on one Promise, with contexts, cancel channels and error channels firing at random points; single-winner and by-result agreement are checked and the history is given to porcupine (single-assignment cell); " +
			"(b) a gated template holding the winning SetResult between its flag swap and its channel close; (c) PromiseContainer replacement chains (SetPromise p1/nil/p2, SetResult) against awaiters, judged per return against the intervals in which each promise was current and resolved, and at quiescence; spinning is decided by counting critical sections of the container's Broadcast; " +
			"result errors range over nil, a unique error, context.Canceled and context.DeadlineExceeded; non-trivial = two or more concurrent setters, or a replacement during an await, or a sentinel-valued error result; distinct = distinct event orders",
		Assumptions: append([]string{"result values are unique and non-zero, so a by-result return identifies the SetResult that produced it"}, commonAssumptions...),
	}
	Registry["C16"] = Spec{
		Run: runC16, Workers: 16, GOMAXPROCS: 4,
		QuickTimeout: 6 * time.Minute, ThoroughTimeout: 30 * time.Minute,
		QuickFloor: 2000, ThoroughFloor: 40000,
		RequiredCounters: []string{"once_cases_judged", "function_calls_observed", "retry_after_error", "caller_cancelled_while_waiting", "deadline_callers", "memo_cases_judged", "OnceLock"},
		Rule: "each case runs 2-10 concurrent Resolve callers on one promise.Once whose function has a scripted outcome per call (success with a unique value, unique error, block until its context is cancelled or the case ends) and a scripted latency, with caller contexts cancelled at random points (including the initiator's while the function runs); " +
			"memo cases run 2-10 concurrent callers of one MemoizeFunc; non-trivial = a caller was cancelled while another waited, or an error was followed by a retry; distinct = distinct event orders",
		Assumptions: commonAssumptions,
	}
}

var errTok = errors.New("result-error-token")

var errWrapsCanceled = fmt.Errorf("result-error wrapping: %w", context.Canceled)

func resultErr(k int) error {
	if k >= 4 {
		return errWrapsCanceled
	}
	switch k % 4 {
	case 1:
		return errTok
	case 2:
		return context.Canceled
	case 3:
		return context.DeadlineExceeded
	}
	return nil
}

// ---------------------------------------------------------------- C11

func runC11(w *mon.Worker) {
	mon.SetMaxSleep(120 * time.Microsecond)
	mon.SetProb(0.3, verifhook.PromiseSetMid)
	mon.SetProb(0.2, verifhook.BcastEnter, verifhook.BcastExit)
	for i := 0; i < w.Share(w.Scale(8000, 200000)); i++ {
		w.Case("promise-race", nil, promiseRaceCase)
	}
	for i := 0; i < w.Share(w.Scale(8000, 200000)); i++ {
		w.Case("container", nil, containerCase)
	}
	mon.ClearProb()
	for i := 0; i < w.Share(w.Scale(800, 16000)); i++ {
		w.Case("promise-gated", nil, promiseGatedCase)
	}
	// no perturbation: the narrowest windows (a first awaiter arriving exactly while SetResult publishes) need raw speed
	for i := 0; i < w.Share(w.Scale(64, 2000)); i++ {
		w.Case("promise-barrier", nil, promiseBarrierCase)
	}
}

// promiseBarrierCase: on each of a few thousand fresh promises one first awaiter and one SetResult are released by the
// same barrier. Whatever the order, the awaiter returns the result.
func promiseBarrierCase(c *mon.Case) {
	r := c.Rng
	iters := 1500 + r.IntN(1500)
	kind := r.IntN(3)
	ctx := context.Background()
	type slot struct {
		p    *promise.Promise[int]
		val  int
		err  error
		done chan struct{}
	}
	for it := 0; it < iters; it++ {
		sl := &slot{p: promise.NewPromise[int](), done: make(chan struct{})}
		start := make(chan struct{})
		go func() {
			<-start
			switch kind {
			case 0:
				sl.val, sl.err = sl.p.Await(ctx)
			case 1:
				sl.val, sl.err = sl.p.AwaitWithErrCh(ctx, nil)
			default:
				sl.val, sl.err = sl.p.AwaitWithCancelCh(ctx, nil)
			}
			close(sl.done)
		}()
		go func() {
			<-start
			sl.p.SetResult(it+1, nil)
		}()
		close(start)
		select {
		case <-sl.done:
		case <-time.After(2 * time.Second):
			if mon.Quiesce(5*time.Second) && mon.QuiesceConfirmed(100*time.Millisecond, 5*time.Second) {
				select {
				case <-sl.done:
				default:
					c.Violate("lost-wakeup", "promise-awaiter-blocked-with-result", "iteration %d: a first awaiter (kind %d) and SetResult were released together on a fresh promise; the result is set, the awaiter is still blocked in a quiescent process", it, kind)
					return
				}
			} else {
				c.Inconclusive("awaiter did not return and no quiescence")
				return
			}
		}
		if sl.err != nil || sl.val != it+1 {
			c.Violate("promise", "await-result-mismatch", "iteration %d: the awaiter returned (%d, %v), SetResult stored (%d, nil)", it, sl.val, sl.err, it+1)
			return
		}
	}
	c.Count("barrier_await_set_pairs", int64(iters))
	c.Evals(iters)
	c.NonTrivial()
	c.Mix(uint64(kind))
}

type pIn struct {
	Op string // set await
	ID int
}

// single-assignment cell: state 0 = unset, else the id of the winning SetResult
var promiseModel = porcupine.Model{
	Init: func() interface{} { return 0 },
	Step: func(st, in, out interface{}) (bool, interface{}) {
		s, i, o := st.(int), in.(pIn), out.(int)
		switch i.Op {
		case "set":
			if s == 0 {
				return o == 1, i.ID
			}
			return o == 0, s
		case "await":
			return s != 0 && o == s, s
		}
		return false, s
	},
	DescribeOperation: func(in, out interface{}) string { return fmt.Sprintf("%v -> %v", in, out) },
}

type awaitRec struct {
	id                int
	kind              int // 0 Await 1 ErrCh 2 CancelCh
	ctx               context.Context
	cancel            context.CancelFunc
	errCh             chan error
	cancelCh          chan struct{}
	fire              int // 0 nothing, 1 cancel ctx, 2 fire channel (send error / close cancelCh), 3 close errCh
	fireStamp         atomic.Int64
	call, ret         int64
	val               int
	err               error
	returned          atomic.Bool
	resultAvailAtCall bool
}

var errChTok = errors.New("errCh-token")

func doAwait(p promise.PromiseLike[int], a *awaitRec) {
	switch a.kind {
	case 0:
		a.val, a.err = p.Await(a.ctx)
	case 1:
		a.val, a.err = p.AwaitWithErrCh(a.ctx, a.errCh)
	default:
		a.val, a.err = p.AwaitWithCancelCh(a.ctx, a.cancelCh)
	}
}

func newAwaitRec(i, kind, fire int) *awaitRec {
	a := &awaitRec{id: i, kind: kind, fire: fire}
	a.ctx, a.cancel = context.WithCancel(context.Background())
	if kind == 1 {
		a.errCh = make(chan error, 1)
	}
	if kind == 2 {
		a.cancelCh = make(chan struct{})
	}
	if kind == 0 && fire > 1 {
		a.fire = 1
	}
	if kind == 2 && (fire == 3 || fire == 5) {
		a.fire = 2
	}
	return a
}

// doFire makes the awaiter's chosen interruption source fire.
func (a *awaitRec) doFire(c *mon.Case) {
	switch a.fire {
	case 1:
		a.fireStamp.Store(c.Rec("disturber", fmt.Sprint("cancel ctx of a", a.id), nil))
		a.cancel()
	case 2:
		a.fireStamp.Store(c.Rec("disturber", fmt.Sprint("fire channel of a", a.id), nil))
		if a.kind == 1 {
			a.errCh <- errChTok
		} else {
			close(a.cancelCh)
		}
	case 3:
		a.fireStamp.Store(c.Rec("disturber", fmt.Sprint("close errCh of a", a.id), nil))
		close(a.errCh)
	case 5:
		// the error channel fires with a nil error (a worker reporting a clean exit)
		a.fireStamp.Store(c.Rec("disturber", fmt.Sprint("send nil on errCh of a", a.id), nil))
		c.Count("nil_errors_sent_on_errch", 1)
		a.errCh <- nil
	}
}

func promiseRaceCase(c *mon.Case) {
	r := c.Rng
	nSet, nAwait := 1+r.IntN(6), 1+r.IntN(8)
	if r.IntN(8) == 0 {
		nSet = 0 // nobody ever resolves: awaiters must still honour their interruption sources
	}
	pre := r.IntN(10) == 0 && nSet > 0
	var p *promise.Promise[int]
	preErr := resultErr(r.IntN(5))
	if pre {
		p = promise.NewPromiseWithResult(999, preErr)
	} else {
		p = promise.NewPromise[int]()
	}
	if nSet >= 2 {
		c.NonTrivial()
	}
	h := &histRec{}
	if pre {
		t0, t1 := c.Stamp(), c.Stamp()
		h.add(porcupine.Operation{ClientId: 99, Input: pIn{Op: "set", ID: 999}, Call: t0, Output: 1, Return: t1})
	}
	errOf := make([]error, nSet+1)
	var wins atomic.Int64
	var winner atomic.Int64
	start := make(chan struct{})
	var swg sync.WaitGroup
	for i := 1; i <= nSet; i++ {
		i := i
		errOf[i] = resultErr(r.IntN(5))
		if errOf[i] == context.Canceled || errOf[i] == context.DeadlineExceeded {
			c.NonTrivial()
			c.Count("sentinel_error_results", 1)
		}
		delay := r.IntN(20)
		swg.Add(1)
		c.Go(fmt.Sprint("s", i), func() {
			defer swg.Done()
			<-start
			for k := 0; k < delay; k++ {
				runtime.Gosched()
			}
			t0 := c.Rec(fmt.Sprint("s", i), "call SetResult", fmt.Sprint(i, " ", errOf[i]))
			ok := p.SetResult(i, errOf[i])
			t1 := c.Rec(fmt.Sprint("s", i), "ret SetResult", ok)
			o := 0
			if ok {
				o = 1
				wins.Add(1)
				winner.Store(int64(i))
			}
			h.add(porcupine.Operation{ClientId: i, Input: pIn{Op: "set", ID: i}, Call: t0, Output: o, Return: t1})
		})
	}
	aw := make([]*awaitRec, nAwait)
	for j := range aw {
		a := newAwaitRec(j, r.IntN(3), r.IntN(6))
		aw[j] = a
		c.Go(fmt.Sprint("a", j), func() {
			<-start
			a.call = c.Rec(fmt.Sprint("a", a.id), fmt.Sprint("call await kind ", a.kind), nil)
			doAwait(p, a)
			a.ret = c.Rec(fmt.Sprint("a", a.id), "ret await", fmt.Sprint(a.val, " ", a.err))
			a.returned.Store(true)
		})
	}
	c.Go("disturber", func() {
		<-start
		for _, a := range aw {
			runtime.Gosched()
			if a.fire != 0 && a.fire != 4 {
				a.doFire(c)
			}
		}
	})
	close(start)
	swg.Wait()
	if !mon.Quiesce(10 * time.Second) {
		c.Inconclusive("no quiescence")
		return
	}
	c.Count("single_winner_checked", 1)
	wantWins := int64(1)
	if pre || nSet == 0 {
		wantWins = 0
	}
	if wins.Load() != wantWins {
		c.Violate("promise", "setresult-winner-count", "%d of %d SetResult calls returned true (pre-resolved promise: %v)", wins.Load(), nSet, pre)
	}
	winID, winErr := int(winner.Load()), error(nil)
	if pre {
		winID, winErr = 999, preErr
	} else if winID != 0 {
		winErr = errOf[winID]
	}
	for _, a := range aw {
		if !a.returned.Load() {
			fired := a.fireStamp.Load() != 0
			if nSet == 0 && !pre && !fired {
				a.cancel() // legitimately blocked: no result and nothing fired
				continue
			}
			// a result exists (every setter returned) or the awaiter's interruption source fired: it may not still be blocked
			if mon.QuiesceConfirmed(100*time.Millisecond, 10*time.Second) && !a.returned.Load() {
				if nSet == 0 && !pre {
					c.Violate("lost-wakeup", "promise-awaiter-ignores-interruption", "awaiter %d (kind %d, interruption %d) is still blocked in a quiescent process although its context / error channel / cancel channel fired (no result was ever set)", a.id, a.kind, a.fire)
				} else {
					c.Violate("lost-wakeup", "promise-awaiter-blocked-with-result", "awaiter %d (kind %d) is still blocked in a quiescent process although the promise has a result", a.id, a.kind)
				}
			}
			a.cancel()
			continue
		}
		c.Count("awaits_judged", 1)
		if a.val != 0 {
			// completed by result
			h.add(porcupine.Operation{ClientId: 100 + a.id, Input: pIn{Op: "await"}, Call: a.call, Output: a.val, Return: a.ret})
			if a.val != winID || a.err != winErr {
				c.Violate("promise", "await-result-mismatch", "awaiter %d returned (%d, %v) but the winning SetResult was (%d, %v)", a.id, a.val, a.err, winID, winErr)
			}
			continue
		}
		fs := a.fireStamp.Load()
		fired := fs != 0 && fs < a.ret
		switch {
		case a.err == context.Canceled && fired && (a.fire == 1 || a.fire == 3 || (a.fire == 2 && a.kind == 2)):
		case a.err == errChTok && fired && a.fire == 2 && a.kind == 1:
		case a.err == nil && fired && a.fire == 5 && a.kind == 1:
			// the channel delivered nil: the await ends with what the channel delivered
		default:
			c.Violate("promise", "await-interrupted-without-source", "awaiter %d (kind %d, interruption %d fired at %d) returned (0, %v) at %d without that source having fired", a.id, a.kind, a.fire, fs, a.err, a.ret)
		}
	}
	c.WaitActors(5 * time.Second)
	checkHistory(c, "promise", promiseModel, h.ops, "promise_histories_linearizable")
}

func promiseGatedCase(c *mon.Case) {
	r := c.Rng
	p := promise.NewPromise[int]()
	g := mon.NewGate(verifhook.PromiseSetMid, p, 1+r.IntN(2))
	nAwait := 1 + r.IntN(4)
	var got sync.Map
	var returned atomic.Int64
	for j := 0; j < nAwait; j++ {
		j := j
		c.Go("a", func() {
			v, err := p.Await(context.Background())
			got.Store(j, [2]any{v, err})
			returned.Add(1)
		})
	}
	e1 := resultErr(r.IntN(5))
	var first atomic.Int64
	c.Go("s1", func() {
		c.Rec("s1", "call SetResult(1)", nil)
		if p.SetResult(1, e1) {
			first.Store(1)
		} else {
			first.Store(-1)
		}
		c.Rec("s1", "ret SetResult(1)", first.Load())
	})
	if !g.WaitArrived(5 * time.Second) {
		g.Release()
		c.Inconclusive("setter never reached the mid point")
		return
	}
	c.Rec("s2", "call SetResult(2) while s1 is parked between swap and close", nil)
	if p.SetResult(2, nil) {
		c.Violate("promise", "setresult-winner-count", "a second SetResult returned true while the first one was parked between its flag swap and its channel close")
	}
	if !mon.Quiesce(5 * time.Second) {
		g.Release()
		c.Inconclusive("no quiescence")
		return
	}
	if returned.Load() != 0 {
		// returning early is fine only with the complete first result; checked below
		c.Rec("a", "an awaiter returned before the first SetResult finished", returned.Load())
	}
	g.Release()
	c.Count("gated_templates", 1)
	c.NonTrivial()
	if !c.WaitActors(5*time.Second) || g.TimedOut.Load() {
		c.Inconclusive("actors did not finish / gate timeout")
		return
	}
	if first.Load() != 1 {
		c.Violate("promise", "setresult-winner-count", "the first SetResult returned false")
	}
	got.Range(func(k, v any) bool {
		x := v.([2]any)
		var e error
		if x[1] != nil {
			e = x[1].(error)
		}
		if x[0].(int) != 1 || e != e1 {
			c.Violate("promise", "await-result-mismatch", "awaiter %v returned (%v, %v), the first SetResult was (1, %v)", k, x[0], x[1], e1)
		}
		return true
	})
}

type pcStep struct {
	kind      string // setpromise setnil setresult resolve
	idx       int    // promise index
	call, ret int64
}

func containerCase(c *mon.Case) {
	r := c.Rng
	ctr := promise.NewPromiseContainer[int]()
	// the writer's script: a chain of replacements and resolutions over promises p1..pk
	nProm := 1 + r.IntN(4)
	proms := make([]*promise.Promise[int], nProm+1)
	perr := make([]error, nProm+1)
	for i := 1; i <= nProm; i++ {
		proms[i] = promise.NewPromise[int]()
		perr[i] = resultErr(r.IntN(5))
	}
	type step struct {
		kind string
		idx  int
	}
	var script []step
	nProm0 := nProm
	cur := 0
	resolved := map[int]bool{}
	for i := 0; i < 3+r.IntN(8); i++ {
		switch k := r.IntN(6); {
		case k < 2:
			idx := 1 + r.IntN(nProm0)
			script = append(script, step{"setpromise", idx})
			cur = idx
		case k < 3:
			script = append(script, step{"setnil", 0})
			cur = 0
		case k < 5:
			idx := 1 + r.IntN(nProm0)
			if !resolved[idx] {
				resolved[idx] = true
				script = append(script, step{"resolve", idx})
			}
		default:
			// container.SetResult installs a fresh resolved promise; model it as a new index
			nProm++
			proms = append(proms, nil)
			perr = append(perr, resultErr(r.IntN(5)))
			script = append(script, step{"setresult", nProm})
			resolved[nProm] = true
			cur = nProm
		}
	}
	finalResolved := cur != 0 && resolved[cur]
	for i := 1; i <= nProm; i++ {
		if perr[i] == context.Canceled || perr[i] == context.DeadlineExceeded {
			c.Count("sentinel_error_results", 1)
			c.NonTrivial()
		}
	}
	nAwait := 1 + r.IntN(6)
	aw := make([]*awaitRec, nAwait)
	start := make(chan struct{})
	before := mon.Hits(verifhook.BcastEnter)
	for j := range aw {
		a := newAwaitRec(j, r.IntN(3), r.IntN(8))
		if a.fire == 5 {
			a.fire = 0 // (the nil-on-errCh interruption is driven against the plain Promise only)
		}
		if a.fire >= 4 {
			a.fire = 0
		}
		aw[j] = a
		delay := r.IntN(30)
		c.Go(fmt.Sprint("a", j), func() {
			<-start
			for k := 0; k < delay; k++ {
				runtime.Gosched()
			}
			a.call = c.Rec(fmt.Sprint("a", a.id), fmt.Sprint("call container await kind ", a.kind), nil)
			doAwait(ctr, a)
			a.ret = c.Rec(fmt.Sprint("a", a.id), "ret await", fmt.Sprint(a.val, " ", a.err))
			a.returned.Store(true)
		})
	}
	// writer log
	var log []pcStep
	var writerCalls int64
	wdone := make(chan struct{})
	c.Go("writer", func() {
		defer close(wdone)
		<-start
		for _, s := range script {
			st := pcStep{kind: s.kind, idx: s.idx}
			st.call = c.Rec("writer", fmt.Sprint(s.kind, " p", s.idx), fmt.Sprint(perr[s.idx]))
			switch s.kind {
			case "setpromise":
				ctr.SetPromise(proms[s.idx])
				writerCalls++
			case "setnil":
				ctr.SetPromise(nil)
				writerCalls++
			case "resolve":
				proms[s.idx].SetResult(s.idx, perr[s.idx])
			case "setresult":
				ctr.SetResult(s.idx, perr[s.idx])
				writerCalls++
			}
			st.ret = c.Stamp()
			log = append(log, st)
			runtime.Gosched()
		}
	})
	c.Go("disturber", func() {
		<-start
		for _, a := range aw {
			for k := 0; k < 3; k++ {
				runtime.Gosched()
			}
			if a.fire != 0 {
				a.doFire(c)
			}
		}
	})
	close(start)
	select {
	case <-wdone:
	case <-time.After(15 * time.Second):
		c.Inconclusive("writer did not finish")
		return
	}
	// quiescence, or a verdict by counting critical sections: a spinning awaiter
	// passes any bound on Broadcast sections within milliseconds
	bound := int64(nAwait+2)*(int64(len(script))+4)*4 + 200
	quiet := false
	for i := 0; i < 200; i++ {
		if mon.Quiesce(50 * time.Millisecond) {
			quiet = true
			break
		}
		if used := mon.Hits(verifhook.BcastEnter) - before; used > 50*bound+100000 {
			c.Violate("spin", "container-awaiter-spins", "the awaiters entered the container's critical section %d times for %d writer calls and %d awaiters (bound %d): an awaiter is spinning instead of blocking (results: %v)", used, writerCalls, nAwait, bound, perr[1:])
			for _, a := range aw {
				a.cancel()
			}
			return
		}
	}
	if !quiet {
		c.Inconclusive("no quiescence")
		for _, a := range aw {
			a.cancel()
		}
		return
	}
	if used := mon.Hits(verifhook.BcastEnter) - before; used > bound {
		c.Violate("spin", "container-awaiter-spins", "the awaiters entered the container's critical section %d times for %d writer calls and %d awaiters (bound %d)", used, writerCalls, nAwait, bound)
	}
	c.Count("container_quiescent_judgements", 1)
	// intervals: promise idx was current from setpromise.call .. next replacement.ret; resolved from resolve.call
	type span struct{ from, to, resolvedFrom int64 }
	const inf = int64(1) << 62
	resolveCall := map[int]int64{}
	for _, s := range log {
		if s.kind == "resolve" || s.kind == "setresult" {
			if _, ok := resolveCall[s.idx]; !ok {
				resolveCall[s.idx] = s.call
			}
		}
	}
	spans := map[int][]span{}
	curIdx, curFrom := 0, int64(0)
	for _, s := range log {
		if s.kind == "setpromise" || s.kind == "setnil" || s.kind == "setresult" {
			if curIdx != 0 && !(s.kind == "setpromise" && s.idx == curIdx) {
				spans[curIdx] = append(spans[curIdx], span{from: curFrom, to: s.ret})
			}
			if !(s.kind == "setpromise" && s.idx == curIdx) {
				curIdx, curFrom = s.idx, s.call
			}
		}
	}
	if curIdx != 0 {
		spans[curIdx] = append(spans[curIdx], span{from: curFrom, to: inf})
	}
	replacedDuring := func(a *awaitRec) bool {
		for _, s := range log {
			if (s.kind == "setpromise" || s.kind == "setnil" || s.kind == "setresult") && s.ret > a.call && s.call < a.ret {
				return true
			}
		}
		return false
	}
	for _, a := range aw {
		if !a.returned.Load() {
			fs := a.fireStamp.Load()
			why := ""
			sig := ""
			switch {
			case finalResolved:
				why, sig = "the current promise is resolved", "container-awaiter-blocked-with-result"
			case a.fire == 1 && fs != 0:
				why, sig = "its context was cancelled", "container-awaiter-ignores-cancel"
			case a.fire >= 2 && fs != 0 && a.kind == 1:
				why, sig = "its error channel fired", "container-errch-ignored-while-promise-pending"
				if cur == 0 {
					sig = "container-errch-ignored"
				}
			case a.fire >= 2 && fs != 0 && a.kind == 2:
				why, sig = "its cancel channel fired", "container-cancelch-ignored-while-promise-pending"
				if cur == 0 {
					sig = "container-cancelch-ignored"
				}
			}
			if sig != "" && mon.QuiesceConfirmed(100*time.Millisecond, 10*time.Second) && !a.returned.Load() {
				c.Violate("lost-wakeup", sig, "container awaiter %d (kind %d) is still blocked in a quiescent process although %s; current promise index %d (resolved %v)", a.id, a.kind, why, cur, finalResolved)
			}
			a.cancel()
			continue
		}
		c.Count("container_awaits_judged", 1)
		if replacedDuring(a) {
			c.NonTrivial()
		}
		if a.val != 0 {
			idx := a.val
			if idx < 1 || idx > nProm || a.err != perr[idx] {
				c.Violate("promise", "container-result-mismatch", "container awaiter %d returned (%d, %v): no promise has that result", a.id, a.val, a.err)
				continue
			}
			rc, ok := resolveCall[idx]
			okSpan := false
			for _, sp := range spans[idx] {
				lo := max(sp.from, rc, a.call)
				hi := min(sp.to, a.ret)
				if ok && lo <= hi {
					okSpan = true
				}
			}
			if !okSpan {
				c.Violate("promise", "container-result-not-current", "container awaiter %d (call %d, return %d) returned the result of promise %d, which was never both current and resolved during the call (current during %v, resolved from %d)", a.id, a.call, a.ret, idx, spans[idx], rc)
			}
			continue
		}
		fs := a.fireStamp.Load()
		fired := fs != 0 && fs < a.ret
		switch {
		case a.err == context.Canceled && fired && (a.fire == 1 || a.fire == 3):
		case a.err == errChTok && fired && a.fire == 2 && a.kind == 1:
		case a.err == nil && fired && a.fire == 2 && a.kind == 2:
			// documented: container AwaitWithCancelCh returns (zero, nil) when the cancel channel fires
		case a.err == context.Canceled && fired && a.fire == 2 && a.kind == 2:
		default:
			c.Violate("promise", "container-await-interrupted-without-source", "container awaiter %d (kind %d, interruption %d fired at %d) returned (0, %v) at %d without that source having fired", a.id, a.kind, a.fire, fs, a.err, a.ret)
		}
	}
	c.WaitActors(5 * time.Second)
}

// ---------------------------------------------------------------- C16

func runC16(w *mon.Worker) {
	mon.SetMaxSleep(120 * time.Microsecond)
	mon.SetProb(0.3, verifhook.OnceLock, verifhook.PromiseSetMid, verifhook.MemoMid)
	for i := 0; i < w.Share(w.Scale(12000, 4500000)); i++ {
		w.Case("once", nil, onceCase)
	}
	for i := 0; i < w.Share(w.Scale(6000, 1800000)); i++ {
		w.Case("memo", nil, memoCase)
	}
	mon.ClearProb()
}

type onceCall struct {
	n          int
	enter, ret int64
	outcome    int  // 0 success 1 error 2 block
	ctxEnded   bool // outcome 2 ended because its context was done
	val        int
	err        error
}

func onceCase(c *mon.Case) {
	r := c.Rng
	nCallers := 2 + r.IntN(9)
	// outcome script per function call number
	outcomes := make([]int, 12)
	lat := make([]int, 12)
	for i := range outcomes {
		switch k := r.IntN(12); {
		case k < 4:
			outcomes[i] = 0
		case k < 8:
			outcomes[i] = 1
		case k < 10:
			outcomes[i] = 2
		case k < 11:
			outcomes[i] = 3 // ignores its context: returns only when the harness ends the case
		default:
			outcomes[i] = 4 // fails with the bare context.Canceled value although its context is live: an error, the next Resolve tries again
		}
		if i > 0 && outcomes[i] == 4 && outcomes[i-1] == 4 {
			outcomes[i] = 0
		}
		lat[i] = r.IntN(4)
	}
	endCase := make(chan struct{})
	var active, ncalls atomic.Int64
	var mu sync.Mutex
	var calls []*onceCall
	var successRet atomic.Int64
	var abortAll atomic.Pointer[func()]
	var spinOnce sync.Once
	fn := func(ctx context.Context) (int, error) {
		n := int(ncalls.Add(1))
		if n > 4000 {
			// the script never fails twice in a row with the bare context.Canceled, so a few calls per caller are the most
			// a correct Once can make; thousands mean the callers are spinning
			spinOnce.Do(func() {
				c.Violate("once", "once-callers-spin", "the function has been called %d times by %d callers: Resolve is looping without ever accepting a result", n, nCallers)
				if f := abortAll.Load(); f != nil {
					(*f)()
				}
			})
			return 0, fmt.Errorf("fn-error-%d", n)
		}
		oc := &onceCall{n: n, outcome: outcomes[(n-1)%len(outcomes)]}
		oc.enter = c.Rec("fn", fmt.Sprint("enter call ", n), nil)
		c.Count("function_calls_observed", 1)
		if a := active.Add(1); a != 1 {
			c.Violate("once", "once-function-overlap", "the function is running in %d calls at once (call %d entered)", a, n)
		}
		if sr := successRet.Load(); sr != 0 && sr < oc.enter {
			c.Violate("once", "once-called-after-success", "function call %d entered at %d after an earlier call had returned success at %d", n, oc.enter, sr)
		}
		switch lat[(n-1)%len(lat)] {
		case 1:
			runtime.Gosched()
		case 2:
			time.Sleep(30 * time.Microsecond)
		case 3:
			for i := 0; i < 5; i++ {
				runtime.Gosched()
			}
		}
		switch oc.outcome {
		case 0:
			oc.val = 100 + n
			if n%3 == 0 {
				oc.val = 0 // a success whose value is the zero value of T is a success like any other
			}
		case 1:
			oc.err = fmt.Errorf("fn-error-%d", n)
			if n%3 == 0 {
				// an error that wraps a cancellation (of something else) is an error like any other
				oc.err = fmt.Errorf("fn-error-%d: %w", n, context.Canceled)
			}
		case 3:
			<-endCase
			oc.err = fmt.Errorf("fn-error-%d", n)
		case 4:
			oc.err = context.Canceled
			c.Count("function_returned_bare_canceled", 1)
		default:
			select {
			case <-ctx.Done():
				oc.err = ctx.Err()
				oc.ctxEnded = true
			case <-endCase:
				oc.err = fmt.Errorf("fn-error-%d", n)
			}
		}
		mu.Lock()
		calls = append(calls, oc)
		mu.Unlock()
		active.Add(-1)
		oc.ret = c.Rec("fn", fmt.Sprint("return call ", n), fmt.Sprint(oc.val, " ", oc.err))
		if oc.err == nil {
			successRet.CompareAndSwap(0, oc.ret)
		}
		return oc.val, oc.err
	}
	o := promise.NewOnce(fn)
	type caller struct {
		id          int
		ctx         context.Context
		cancel      context.CancelFunc
		cancelAfter int // -1 never
		timeout     bool
		cancelStamp atomic.Int64
		call, ret   int64
		val         int
		err         error
		returned    atomic.Bool
	}
	cs := make([]*caller, nCallers)
	start := make(chan struct{})
	for i := range cs {
		cl := &caller{id: i, cancelAfter: -1}
		cl.ctx, cl.cancel = context.WithCancel(context.Background())
		if r.IntN(3) == 0 {
			cl.cancelAfter = r.IntN(40)
		} else if r.IntN(4) == 0 {
			// a caller whose context ends by deadline while it waits (or while the function it started runs)
			cl.timeout = true
			var c2 context.CancelFunc
			cl.ctx, c2 = context.WithTimeout(cl.ctx, time.Duration(50+r.IntN(1500))*time.Microsecond)
			defer c2()
			c.Count("deadline_callers", 1)
		}
		cs[i] = cl
		delay := r.IntN(30)
		c.Go(fmt.Sprint("c", i), func() {
			<-start
			for k := 0; k < delay; k++ {
				runtime.Gosched()
			}
			cl.call = c.Rec(fmt.Sprint("c", cl.id), "call Resolve", nil)
			cl.val, cl.err = o.Resolve(cl.ctx)
			cl.ret = c.Rec(fmt.Sprint("c", cl.id), "ret Resolve", fmt.Sprint(cl.val, " ", cl.err))
			cl.returned.Store(true)
		})
		if cl.cancelAfter >= 0 {
			c.Go("canceller", func() {
				<-start
				for k := 0; k < cl.cancelAfter; k++ {
					runtime.Gosched()
				}
				cl.cancelStamp.Store(c.Rec("canceller", fmt.Sprint("cancel c", cl.id), nil))
				cl.cancel()
			})
		}
	}
	ab := func() {
		for _, cl := range cs {
			cl.cancel()
		}
	}
	abortAll.Store(&ab)
	close(start)
	for _, cl := range cs {
		if cl.timeout {
			<-cl.ctx.Done() // at most 1.6 ms; the judgement below is made after every deadline has passed
		}
	}
	if !mon.Quiesce(10 * time.Second) {
		if fn, busy := mon.BusyLoopInLibrary(300 * time.Millisecond); busy {
			c.Violate("hang", "library-busy-loop", "ten seconds after the last caller was started the process is still not quiescent and a goroutine keeps running inside %s: Resolve loops without obtaining a result (function calls so far: %d)", fn, ncalls.Load())
			for _, cl := range cs {
				cl.cancel()
			}
			close(endCase)
			return
		}
		close(endCase)
		c.Inconclusive("no quiescence")
		return
	}
	// a caller whose own context ended gets context.Canceled even while the function (which may ignore its context) is still running
	for _, cl := range cs {
		if !cl.returned.Load() && (cl.cancelStamp.Load() != 0 || cl.timeout) {
			if mon.QuiesceConfirmed(100*time.Millisecond, 10*time.Second) && !cl.returned.Load() {
				c.Violate("lost-wakeup", "once-cancelled-caller-blocked", "caller %d is still blocked in Resolve in a quiescent process although its own context ended (cancelled at %d, deadline=%v) while the function is still running", cl.id, cl.cancelStamp.Load(), cl.timeout)
				break
			}
		}
	}
	c.Count("cancelled_callers_checked_before_end", 1)
	// blocked function calls (waiting for a context nobody cancels) are ended now
	close(endCase)
	if !mon.Quiesce(10 * time.Second) {
		c.Inconclusive("no quiescence after ending blocked calls")
		return
	}
	c.Count("once_cases_judged", 1)
	for _, cl := range cs {
		if !cl.returned.Load() && cl.cancelStamp.Load() == 0 && !cl.timeout {
			if mon.QuiesceConfirmed(100*time.Millisecond, 10*time.Second) && !cl.returned.Load() {
				c.Violate("lost-wakeup", "once-live-caller-blocked", "caller %d with a live context is still blocked in Resolve in a quiescent process (function calls so far: %d)", cl.id, ncalls.Load())
			}
		}
		cl.cancel()
	}
	c.WaitActors(5 * time.Second)
	mu.Lock()
	defer mu.Unlock()
	var success *onceCall
	for _, oc := range calls {
		if oc.err == nil {
			if success != nil {
				c.Violate("once", "once-two-successes", "function calls %d and %d both returned success", success.n, oc.n)
			}
			success = oc
		}
	}
	sawError, sawRetry, sawCancelledWaiter := false, false, false
	for _, oc := range calls {
		if oc.err != nil {
			sawError = true
		} else if sawError {
			sawRetry = true
		}
	}
	if len(calls) >= 2 && sawError {
		sawRetry = true
	}
	for _, cl := range cs {
		if !cl.returned.Load() {
			continue
		}
		switch {
		case cl.err == nil:
			if success == nil || cl.val != success.val {
				c.Violate("once", "once-result-mismatch", "caller %d got (%d, nil) but the successful function call returned %v", cl.id, cl.val, success)
			}
		case cl.err == context.Canceled:
			cst := cl.cancelStamp.Load()
			if cl.timeout {
				// when the deadline passed is not observable; it has passed by now, which is all this branch needs
				if len(calls) > 0 {
					sawCancelledWaiter = true
				}
			} else if cst == 0 || cst > cl.ret {
				c.Violate("once", "once-canceled-without-cancel", "caller %d got context.Canceled at %d, its context was cancelled at %d (0 = never)", cl.id, cl.ret, cst)
			} else if len(calls) > 0 {
				sawCancelledWaiter = true
			}
		default:
			// must be the error of a function call that overlapped this Resolve, and not one
			// that an earlier-returned Resolve had already reported before this one started
			var src *onceCall
			for _, oc := range calls {
				if oc.err != nil && oc.err.Error() == cl.err.Error() {
					src = oc
				}
			}
			if src == nil {
				c.Violate("once", "once-foreign-error", "caller %d got error %v which no function call returned", cl.id, cl.err)
				break
			}
			if src.ctxEnded {
				c.Violate("once", "once-starter-context-error-leaked", "caller %d got %v, the error with which function call %d ended because the context of the caller that started it was done: another caller's cancellation must not keep this one from obtaining a result", cl.id, cl.err, src.n)
				break
			}
			if src.ret < cl.call {
				// the function call finished before this Resolve even started; only allowed if
				// no Resolve that returned this error had returned before this one started
				for _, other := range cs {
					if other != cl && other.returned.Load() && other.err != nil && other.err.Error() == cl.err.Error() && other.ret < cl.call {
						c.Violate("once", "once-stale-error", "caller %d (started at %d) got error %v of a function call that had already failed and been reported to caller %d at %d: a later Resolve must call the function again", cl.id, cl.call, cl.err, other.id, other.ret)
						break
					}
				}
			}
		}
	}
	if success != nil && !c.Violated() {
		// a later Resolve: same value, no further call
		before := ncalls.Load()
		mu.Unlock()
		v, err := o.Resolve(context.Background())
		mu.Lock()
		c.Count("later_resolves_after_success", 1)
		if err != nil || v != success.val || ncalls.Load() != before {
			c.Violate("once", "once-called-after-success", "a Resolve issued after everything had settled returned (%d, %v) with %d function calls in total (before: %d); the successful call %d had returned %d", v, err, ncalls.Load(), before, success.n, success.val)
		}
	}
	if sawRetry {
		c.Count("retry_after_error", 1)
		c.NonTrivial()
	}
	if sawCancelledWaiter {
		c.Count("caller_cancelled_while_waiting", 1)
		c.NonTrivial()
	}
}

func memoCase(c *mon.Case) {
	r := c.Rng
	n := 2 + r.IntN(9)
	var calls atomic.Int64
	wantErr := resultErr(r.IntN(2))
	slow := r.IntN(3)
	// one case in six: the function panics and its caller recovers; that was the one call there is
	panics := r.IntN(6) == 0
	fn0 := memo.MemoizeFunc(func() (int, error) {
		k := calls.Add(1)
		c.Rec("fn", "enter", k)
		switch slow {
		case 1:
			runtime.Gosched()
		case 2:
			time.Sleep(40 * time.Microsecond)
		}
		if panics {
			panic("the memoized function panics (recovered by its caller)")
		}
		return int(1000 + k), wantErr
	})
	type res struct {
		v   int
		err error
	}
	fn := func() (v int, err error) {
		defer func() {
			if p := recover(); p != nil {
				v, err = -1, nil
			}
		}()
		return fn0()
	}
	out := make([]res, n)
	start := make(chan struct{})
	for i := 0; i < n; i++ {
		i := i
		c.Go(fmt.Sprint("m", i), func() {
			<-start
			c.Rec(fmt.Sprint("m", i), "call", nil)
			v, err := fn()
			out[i] = res{v, err}
			c.Rec(fmt.Sprint("m", i), "ret", v)
		})
	}
	close(start)
	if !c.WaitActors(10 * time.Second) {
		if mon.Quiesce(5 * time.Second) {
			c.Violate("lost-wakeup", "memo-caller-blocked", "a MemoizeFunc caller is still blocked in a quiescent process")
		} else {
			c.Inconclusive("callers did not finish")
		}
		return
	}
	c.Count("memo_cases_judged", 1)
	c.NonTrivial()
	if calls.Load() != 1 {
		c.Violate("once", "memo-call-count", "the memoized function ran %d times for %d concurrent callers", calls.Load(), n)
	}
	if panics {
		c.Count("memo_panicking_function_cases", 1)
		fn()
		if calls.Load() != 1 {
			c.Violate("once", "memo-call-count", "the memoized function panicked (its caller recovered); a later call ran it again: %d calls in total", calls.Load())
		}
		return
	}
	for i, o := range out {
		if o.v != 1001 || o.err != wantErr {
			c.Violate("once", "memo-result-mismatch", "caller %d got (%d, %v), the single call returned (1001, %v)", i, o.v, o.err, wantErr)
			break
		}
	}
	// later callers as well
	if v, err := fn(); v != 1001 || err != wantErr || calls.Load() != 1 {
		c.Violate("once", "memo-result-mismatch", "a later caller got (%d, %v) with %d total calls", v, err, calls.Load())
	}
}
