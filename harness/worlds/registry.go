// Package worlds contains the workloads and oracles, one world per subsystem.
package worlds

import (
	"time"

	"verifharness/mon"
)

// Spec describes how a property's check is run.
type Spec struct {
	Run             func(w *mon.Worker)
	Workers         int
	GOMAXPROCS      int
	Race            bool // run the workers from the -race build and parse race reports
	RaceSafeHooks   bool // schedule-point handler without shared writes
	QuickTimeout    time.Duration
	ThoroughTimeout time.Duration
	QuickFloor      int
	ThoroughFloor   int
	// CaseTimeout is the per-case wall-clock watchdog (default 30 s); firing is inconclusive.
	CaseTimeout time.Duration
	// RequiredCounters must be non-zero (oracle counters or hook hits) or the run is inconclusive.
	RequiredCounters []string
	Rule             string
	Assumptions      []string
}

// Registry maps property ids to their specs.
var Registry = map[string]Spec{}

var commonAssumptions = []string{
	"the Go runtime, the race detector and runtime.Stack goroutine states are trusted",
	"only executions actually produced by this run are judged; scheduling is perturbed, not enumerated",
	"the verif build differs from the normal build only by calls to verifhook.Point at the recorded sites",
}
