package worlds

import (
	"io"

	"github.com/sirupsen/logrus"
)

// discardLogger is handed to the library's ...WithLogger constructors; what it logs is not part of any property.
func discardLogger() *logrus.Entry {
	l := logrus.New()
	l.SetOutput(io.Discard)
	return logrus.NewEntry(l)
}
