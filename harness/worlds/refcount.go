package worlds

import (
	"context"
	"fmt"
	"os"
	"runtime"
	"sync"
	"sync/atomic"
	"time"

	"github.com/aperturerobotics/util/ccontainer"
	"github.com/aperturerobotics/util/refcount"
	"github.com/aperturerobotics/util/verifhook"

	"verifharness/mon"
)

func init() {
	rfAssume := append([]string{
		"resolver, release functions, reference callbacks and Access callbacks are harness closures stamping themselves on the case's logical clock; release functions and reference callbacks run under the RefCount mutex, so what they read from the harness shadow state is a consistent cut",
		"'about to release / invalidate / change context' marks are set before the respective call, so they can only excuse a release, never accuse one",
	}, commonAssumptions...)
	Registry["C08"] = Spec{
		Run: func(w *mon.Worker) { runRefcount(w, "C08") }, Workers: 16, GOMAXPROCS: 4,
		QuickTimeout: 8 * time.Minute, ThoroughTimeout: 40 * time.Minute,
		QuickFloor: 1500, ThoroughFloor: 40000, CaseTimeout: 8 * time.Second,
		RequiredCounters: []string{"release_funcs_checked_inside", "quiescent_release_audits", "stale_resolver_results", "final_all_released_audits", "drop_causes_checked", "stale_released_calls", "setcontext_same_context_calls", "RefCountLock"},
		Rule: "each case runs 2-4 reference actors (AddRef with and without callback, Release, double Release), an invalidator calling released() of the newest value, a context changer (SetContext new/same, ClearContext, cancelling the root context behind the container's back) and consumers (Wait/Resolve/ResolveWithReleased/Access) against a resolver with scripted outcomes (value, error, error with release func, slow, returns a value after its context was cancelled), both keep-unreferenced settings; " +
			"every release function counts itself and inspects the target container and the per-reference 'last callback' table from inside the call; at quiescence and after a final ClearContext the release counts are audited; late released() calls of long-replaced results, released() called from inside reference callbacks, SetContext with the context already held, cancellation of contexts that were replaced earlier, already-done contexts, resolver errors that wrap context.Canceled and results equal to the zero value are part of the workload; a result that was delivered to a reference callback may only be released after its released(), a context change or the last Release (refcount-result-dropped-without-cause); templates: zero-value, stale-released; non-trivial = at least one stale resolver result or one released() racing the last Release; distinct = distinct event orders",
		Assumptions: rfAssume,
	}
	Registry["C09"] = Spec{
		Run: func(w *mon.Worker) { runRefcount(w, "C09") }, Workers: 16, GOMAXPROCS: 4,
		QuickTimeout: 8 * time.Minute, ThoroughTimeout: 40 * time.Minute,
		QuickFloor: 1500, ThoroughFloor: 40000, CaseTimeout: 8 * time.Second,
		RequiredCounters: []string{"resolver_entries_checked", "quiescent_delivery_judgements", "restarts_inside_resolver_return", "addref_nil_callback_calls", "references_added_after_resolution", "gated_templates", "root_cancel_templates", "stale_resolver_context_judgements", "zero_value_cases", "RefCountResolveStart"},
		Rule: "same workload as C08 plus bursts of 2-5 restarts (SetContext / released()) while a resolver ignores cancellation, and a gated template holding resolver A in its return path; a resolver active counter is asserted at every entry; at quiescence with a live context and held references the newest resolver call's result must be in the target containers and be the last thing every held reference callback received; " +
			"every API call must return (panics are caught, calls blocked at quiescence are violations), AddRef(nil) is issued in every state; non-trivial = at least two restarts inside one resolver's return latency, or a reference added after resolution; distinct = distinct event orders",
		Assumptions: rfAssume,
	}
	Registry["C10"] = Spec{
		Run: func(w *mon.Worker) { runRefcount(w, "C10") }, Workers: 16, GOMAXPROCS: 4,
		QuickTimeout: 8 * time.Minute, ThoroughTimeout: 40 * time.Minute,
		QuickFloor: 1500, ThoroughFloor: 40000, CaseTimeout: 8 * time.Second,
		RequiredCounters: []string{"consumer_returns_judged", "access_invocations", "access_returns_judged", "invalidations_inside_consumer_call", "released_callbacks_audited", "equal_replacement_cases", "access_single_invalidation_cases", "zero_value_cases"},
		Rule: "same workload with 1-3 Access callers (callbacks returning at once, running until cancelled or until told) and 1-3 Wait/Resolve/ResolveWithReleased callers as the main actors, an invalidator, a context changer and other references coming and going, including resolvers that return an equal (==) value again; " +
			"consumer holds are entered into the premature-release table between return and release; Access results are judged against the release stamps that fall inside the callback invocation; at quiescence blocked invocations on invalidated values and missing re-invocations are violations; " +
			"non-trivial = at least one invalidation landed inside a consumer's call; distinct = distinct event orders",
		Assumptions: rfAssume,
	}
}

type rfVal struct{ id int }

// rfGen: val/err/hasRel are written by the resolver before retA is stored and must only be
// read after Ret() returned non-zero (acquire/release through the atomic), see the accessors.
type rfGen struct {
	g           int
	valF        *rfVal
	errF        error
	relF        bool
	enter       int64
	retA        atomic.Int64
	ctxEpoch    int64
	ccStart     int64        // w.ccStart at entry
	delivered   atomic.Int64 // stamp at which a reference callback was first told this result (0 = never); set under the RefCount mutex
	dCtxEpoch   atomic.Int64 // w.ctxEpoch / w.zeroEpoch at that moment
	dZeroEpoch  atomic.Int64
	relCount    atomic.Int64
	relStamp    atomic.Int64
	zeroEpoch   int64
	heldAtEntry int64
	invalid     atomic.Int64 // stamp at which the harness was about to call released()
	released    func()
	ctx         context.Context
	gate        chan struct{}
}

type rfHolder struct {
	id        int
	kind      string // ref wait resolve rwr access
	hasCb     bool
	val       atomic.Pointer[rfVal] // value this holder currently relies on (nil = none)
	lastRes   atomic.Bool           // last callback said resolved
	lastErr   atomic.Pointer[error]
	cbCount   atomic.Int64
	releasing atomic.Bool
	gone      atomic.Bool
}

type rfWorld struct {
	c          *mon.Case
	rc         *refcount.RefCount[*rfVal]
	target     *ccontainer.CContainer[*rfVal]
	targetErr  *ccontainer.CContainer[*error]
	keepUnref  bool
	sameValue  bool
	shared     *rfVal
	active     atomic.Int64
	ctxEpoch   atomic.Int64
	ccStart    atomic.Int64 // SetContext(fresh context) calls started (such a call always replaces the context)
	endingCase atomic.Bool  // the case is winding down: references are released and the context cleared without bookkeeping
	// heldCount is a lower bound of the references the library knows (incremented after AddRef returned,
	// decremented before Release is called); zeroEpoch counts how often it reached zero
	heldCount atomic.Int64
	zeroEpoch atomic.Int64
	mu        sync.Mutex
	gens      []*rfGen
	holders   []*rfHolder
	behave    func(g int) (outcome int, lat int)
	endCase   chan struct{}
	holdSeq   atomic.Int64
}

const (
	rfValue = iota
	rfError
	rfErrorWithRel
	rfSlow
	rfIgnoreCtx // waits for the harness (or the end of the case), ignoring its context
	rfValueAfterCancel
	rfErrorWithRelAfterCancel // waits for its context to be cancelled, then returns an error together with a release func
)

func newRfWorld(c *mon.Case, keepUnref, sameValue, withCtx bool, ctx context.Context, behave func(int) (int, int)) *rfWorld {
	w := &rfWorld{c: c, keepUnref: keepUnref, sameValue: sameValue, behave: behave, endCase: make(chan struct{}), shared: &rfVal{id: -1}}
	w.target = ccontainer.NewCContainer[*rfVal](nil)
	w.targetErr = ccontainer.NewCContainer[*error](nil)
	var cctx context.Context
	if withCtx {
		cctx = ctx
	}
	w.rc = refcount.NewRefCount(cctx, keepUnref, w.target, w.targetErr, w.resolver)
	return w
}

// Ret returns the stamp at which the resolver call returned (0 = not yet).
func (g *rfGen) Ret() int64 { return g.retA.Load() }

// Val returns the resolved value once the call has returned.
func (g *rfGen) Val() *rfVal {
	if g.retA.Load() == 0 {
		return nil
	}
	return g.valF
}

// Err returns the resolver error once the call has returned.
func (g *rfGen) Err() error {
	if g.retA.Load() == 0 {
		return nil
	}
	return g.errF
}

// HasRel reports whether the call returned a release function.
func (g *rfGen) HasRel() bool { return g.retA.Load() != 0 && g.relF }

func (w *rfWorld) resolver(ctx context.Context, released func()) (*rfVal, func(), error) {
	c := w.c
	gen := &rfGen{ctx: ctx, released: released, ccStart: w.ccStart.Load(), ctxEpoch: w.ctxEpoch.Load(), zeroEpoch: w.zeroEpoch.Load(), heldAtEntry: w.heldCount.Load(), gate: make(chan struct{})}
	w.mu.Lock()
	gen.g = len(w.gens) + 1
	w.gens = append(w.gens, gen)
	gen.enter = c.Rec("resolver", fmt.Sprint("enter g", gen.g), nil)
	w.mu.Unlock()
	c.Count("resolver_entries_checked", 1)
	if a := w.active.Add(1); a != 1 {
		c.Violate("resolver", "refcount-resolver-overlap", "the resolver is running in %d calls at once (call g%d just entered)", a, gen.g)
	}
	outcome, lat := w.behave(gen.g)
	switch outcome {
	case rfSlow:
		time.Sleep(time.Duration(lat) * time.Microsecond)
	case rfIgnoreCtx:
		select {
		case <-gen.gate:
		case <-w.endCase:
		}
	case rfValueAfterCancel, rfErrorWithRelAfterCancel:
		select {
		case <-ctx.Done():
		case <-gen.gate:
		case <-w.endCase:
		}
		time.Sleep(time.Duration(lat) * time.Microsecond)
	default:
		if lat == 1 {
			runtime.Gosched()
		}
	}
	var rel func()
	mkRel := func() func() {
		gen.relF = true
		return func() { w.releaseFn(gen) }
	}
	switch outcome {
	case rfError:
		gen.errF = fmt.Errorf("resolve-error-g%d", gen.g)
		if gen.g%3 == 0 {
			// a resolver error that wraps a cancellation of something else: an error result like any other
			gen.errF = fmt.Errorf("resolve-error-g%d: %w", gen.g, context.Canceled)
		}
		if gen.g%7 == 4 {
			// the resolver's own sub-task was cancelled: the bare sentinel as the resolver's error, with everybody's context alive
			gen.errF = context.Canceled
			c.Count("resolver_bare_canceled_errors", 1)
		}
	case rfErrorWithRel, rfErrorWithRelAfterCancel:
		gen.errF = fmt.Errorf("resolve-error-g%d", gen.g)
		if gen.g%3 == 0 {
			gen.errF = fmt.Errorf("resolve-error-g%d: %w", gen.g, context.Canceled)
		}
		rel = mkRel()
	default:
		if w.sameValue {
			gen.valF = w.shared
		} else {
			gen.valF = &rfVal{id: gen.g}
		}
		rel = mkRel()
	}
	w.active.Add(-1)
	gen.retA.Store(c.Rec("resolver", fmt.Sprintf("return g%d val=%v err=%v", gen.g, gen.valF != nil, gen.errF), nil))
	return gen.valF, rel, gen.errF
}

// releaseFn runs under the RefCount mutex (clearResolvedState / stale result path).
func (w *rfWorld) releaseFn(gen *rfGen) {
	c := w.c
	st := c.Rec("release", fmt.Sprint("release g", gen.g), nil)
	c.Count("release_funcs_checked_inside", 1)
	if n := gen.relCount.Add(1); n != 1 {
		c.Violate("release", "refcount-release-func-called-twice", "the release function of resolver call g%d ran %d times", gen.g, n)
	}
	gen.relStamp.Store(st)
	if gen.Val() == nil && gen.Err() != nil {
		w.dropCause(gen, gen.invalid.Load() != 0 || w.ctxEpoch.Load() != gen.ctxEpoch || gen.ctxEpoch%2 == 1)
		// an error result with a release func: no held reference may still believe it is the current result
		w.mu.Lock()
		hs := append([]*rfHolder(nil), w.holders...)
		w.mu.Unlock()
		for _, h := range hs {
			if h.gone.Load() || h.releasing.Load() || !h.hasCb || !h.lastRes.Load() {
				continue
			}
			if pe := h.lastErr.Load(); pe != nil && *pe == gen.Err() {
				c.Violate("release", "refcount-released-while-reference-told-valid", "the release function of the error result g%d runs while held reference %d was last told that this result is current", gen.g, h.id)
				return
			}
		}
	}
	if gen.Val() == nil || w.sameValue {
		return
	}
	if cur := w.target.GetValue(); cur == gen.Val() {
		c.Violate("release", "refcount-target-holds-released-value", "the release function of g%d runs while the target container still holds that value", gen.g)
	}
	// ctxEpoch is incremented before and after every context call: odd = a call was in flight
	excused := gen.invalid.Load() != 0 || w.ctxEpoch.Load() != gen.ctxEpoch || gen.ctxEpoch%2 == 1
	w.dropCause(gen, excused)
	w.mu.Lock()
	hs := append([]*rfHolder(nil), w.holders...)
	w.mu.Unlock()
	for _, h := range hs {
		if h.gone.Load() || h.releasing.Load() || h.val.Load() != gen.Val() {
			continue
		}
		if h.hasCb {
			c.Violate("release", "refcount-released-while-reference-told-valid", "the release function of g%d runs while held reference %d (%s) was last told that this value is resolved and valid (invalidated=%v, context changed=%v)", gen.g, h.id, h.kind, gen.invalid.Load() != 0, w.ctxEpoch.Load() != gen.ctxEpoch || gen.ctxEpoch%2 == 1)
			return
		}
		if !excused {
			c.Violate("release", "refcount-premature-release", "the release function of g%d runs while %s holder %d still holds that value, and the value was neither invalidated nor the context changed", gen.g, h.kind, h.id)
			return
		}
	}
}

// dropCause: a result (value or error with a release function) is dropped only for a reason - its released() was
// called, the context was changed or cleared, or the last reference went away. The harness's reference count is a
// lower bound of the container's (it is raised after AddRef returned and lowered before Release is called), so
// "references were held all the time since the resolver call entered" is certain when zeroEpoch has not moved.
func (w *rfWorld) dropCause(gen *rfGen, excused bool) {
	if excused || w.endingCase.Load() || gen.delivered.Load() == 0 {
		// only results that were delivered are judged: a resolve goroutine may be superseded before its resolver even
		// enters, and its result is then rightly released at once
		return
	}
	w.c.Count("drop_causes_checked", 1)
	de := gen.dCtxEpoch.Load()
	if de%2 == 0 && de == w.ctxEpoch.Load() && gen.dZeroEpoch.Load() == w.zeroEpoch.Load() && w.heldCount.Load() > 0 {
		w.c.Violate("release", "refcount-result-dropped-without-cause", "the release function of g%d (val %s err %v) runs although it had been delivered to a reference callback, its released() was never called, the context was neither changed nor cleared since that delivery, and references were held the whole time (%d now): nothing justifies dropping the result", gen.g, valID(gen.Val()), gen.Err(), w.heldCount.Load())
	}
}

// decHeld is called right before a reference known to the harness is released.
func (w *rfWorld) decHeld() {
	if w.heldCount.Add(-1) <= 0 {
		w.zeroEpoch.Add(1)
	}
}

func (w *rfWorld) newHolder(kind string, hasCb bool) *rfHolder {
	h := &rfHolder{id: int(w.holdSeq.Add(1)), kind: kind, hasCb: hasCb}
	w.mu.Lock()
	w.holders = append(w.holders, h)
	w.mu.Unlock()
	return h
}

// refCb returns the reference callback feeding the holder's shadow state (runs under the RefCount mutex).
func (w *rfWorld) refCb(h *rfHolder) func(bool, *rfVal, error) {
	return func(resolved bool, v *rfVal, err error) {
		if resolved && h.cbCount.Load() > 0 && h.lastRes.Load() {
			w.c.Violate("release", "refcount-reference-not-told-gone", "reference %d received a second 'resolved' callback (val %s, err %v) without having been told in between that the previous result (val %s) is gone", h.id, valID(v), err, valID(h.val.Load()))
		}
		h.cbCount.Add(1)
		h.lastRes.Store(resolved)
		if err != nil {
			e := err
			h.lastErr.Store(&e)
		} else {
			h.lastErr.Store(nil)
		}
		if resolved && err == nil {
			h.val.Store(v)
		} else {
			h.val.Store(nil)
		}
		if resolved && !w.sameValue {
			var g *rfGen
			if err == nil {
				g = w.genOf(v)
			} else {
				g = w.genOfErr(err)
			}
			if g != nil && w.heldCount.Load() > 0 && g.delivered.Load() == 0 {
				g.dCtxEpoch.Store(w.ctxEpoch.Load())
				g.dZeroEpoch.Store(w.zeroEpoch.Load())
				g.delivered.Store(w.c.Stamp())
			}
		}
		if resolved && err == nil && h.id%7 == 3 && !w.sameValue && h.cbCount.Load() == 1 {
			// a reference callback may invalidate the value it was just told about: released() is documented to be
			// callable from anywhere, also from inside a callback that runs under the container's lock
			if g := w.genOf(v); g != nil && g.released != nil && g.invalid.CompareAndSwap(0, w.c.Stamp()) {
				w.c.Count("released_from_inside_callback", 1)
				g.released()
			}
		}
	}
}

func (w *rfWorld) genList() []*rfGen {
	w.mu.Lock()
	defer w.mu.Unlock()
	return append([]*rfGen(nil), w.gens...)
}

func (w *rfWorld) genOf(v *rfVal) *rfGen {
	for _, g := range w.genList() {
		if g.Val() == v {
			return g
		}
	}
	return nil
}

func (w *rfWorld) genOfErr(err error) *rfGen {
	for _, g := range w.genList() {
		if g.Err() != nil && g.Err() == err {
			return g
		}
	}
	return nil
}

func runRefcount(w *mon.Worker, prop string) {
	mon.SetMaxSleep(120 * time.Microsecond)
	n := w.Share(w.Scale(12000, 1500000))
	for i := 0; i < n; i++ {
		mon.SetProb(0.15, verifhook.RefCountLock, verifhook.RefCountResolveStart, verifhook.RefCountResolveCall, verifhook.RefCountResolveDone, verifhook.BcastEnter, verifhook.BcastExit)
		mon.SetProb(0.3, verifhook.PromiseSetMid)
		i := i
		w.Case("mixed", map[string]any{"i": i}, func(c *mon.Case) { refcountCase(c, prop, i) })
	}
	if prop == "C10" {
		mon.SetProb(0.3, verifhook.BcastEnter, verifhook.BcastExit, verifhook.RefCountLock)
		for i := 0; i < w.Share(w.Scale(4000, 400000)); i++ {
			w.Case("access-one-invalidation", nil, rfAccessOneInvalidationCase)
		}
	}
	// a resolver may legitimately resolve to the zero value of T: every consumer has to treat it as a value
	for i := 0; i < w.Share(w.Scale(1600, 160000)); i++ {
		w.Case("zero-value", nil, func(c *mon.Case) { rfZeroValueCase(c, prop) })
	}
	for i := 0; i < w.Share(w.Scale(800, 80000)); i++ {
		w.Case("stale-released", nil, rfStaleReleasedCase)
	}
	for i := 0; i < w.Share(w.Scale(400, 40000)); i++ {
		w.Case("option-combinations", nil, rfOptionCombinationsCase)
	}
	for i := 0; i < w.Share(w.Scale(400, 40000)); i++ {
		w.Case("promise-reference", nil, rfPromiseRefCase)
	}
	mon.ClearProb()
	if prop == "C10" {
		// consumers depend on it too: a result obtained after the owner cancelled the root context is still delivered
		for i := 0; i < w.Share(w.Scale(400, 50000)); i++ {
			w.Case("root-cancel-in-flight", nil, rfRootCancelCase)
		}
	}
	if prop == "C09" {
		for i := 0; i < w.Share(w.Scale(800, 100000)); i++ {
			w.Case("gated-resolver", nil, rfGatedCase)
		}
		for i := 0; i < w.Share(w.Scale(400, 50000)); i++ {
			w.Case("root-cancel-in-flight", nil, rfRootCancelCase)
		}
	}
}

type rfConsumer struct {
	id          int
	kind        string
	ctx         context.Context
	cancel      context.CancelFunc
	cancelStamp atomic.Int64
	cancelDone  atomic.Int64 // stamp taken after cancel() returned
	call, ret   int64
	val         *rfVal
	err         error
	returned    atomic.Bool
	holder      *rfHolder
	releaseCall atomic.Int64
	relCbCount  atomic.Int64
	// access
	cbMode int // 0 returns at once, 1 runs until ctx cancelled, 2 runs until told
	invMu  sync.Mutex
	invs   []*rfInv
}

type rfInv struct {
	n          int
	val        *rfVal
	ctx        context.Context
	enter, pre int64
	done       atomic.Bool
	token      error
}

func refcountCase(c *mon.Case, prop string, idx int) {
	r := c.Rng
	keepUnref := r.IntN(2) == 0
	sameValue := prop == "C10" && r.IntN(5) == 0
	if sameValue {
		c.Count("equal_replacement_cases", 1)
	}
	seedB := r.Uint64()
	maxGens := 40
	behave := func(g int) (int, int) {
		x := mon.SubSeed(seedB, "g", uint64(g))
		lat := int(x>>8) % 200
		if g > maxGens {
			return rfValue, 0
		}
		switch x % 10 {
		case 0:
			return rfError, lat % 2
		case 1:
			return rfErrorWithRel, lat % 2
		case 2:
			return rfSlow, lat
		case 3:
			if prop == "C09" || x%20 < 10 {
				return rfIgnoreCtx, lat
			}
			return rfValue, lat % 2
		case 4:
			if x%20 < 10 {
				return rfErrorWithRelAfterCancel, lat % 50
			}
			return rfValueAfterCancel, lat
		default:
			return rfValue, lat % 2
		}
	}
	rootCtx, rootCancel := context.WithCancel(context.Background())
	defer rootCancel()
	withCtx := r.IntN(2) == 0
	var errSnapP *error
	var errSnapE error
	w := newRfWorld(c, keepUnref, sameValue, withCtx, rootCtx, behave)
	defer close(w.endCase)
	cx := &rtCtxs{}
	defer cx.cancelAll()
	var ctxMu sync.Mutex
	ctxLive := withCtx
	ctxCleared := false
	ctxRootCancelled := false // the container still holds a context, but its owner cancelled it
	curRoot := rootCancel

	stop := make(chan struct{})
	stopped := func() bool {
		select {
		case <-stop:
			return true
		default:
			return false
		}
	}
	var invalidations, invalidInConsumer atomic.Int64
	var consumersInFlight atomic.Int64

	// ---- reference actors
	nRefActors := 2 + r.IntN(3)
	if prop == "C10" {
		nRefActors = 1 + r.IntN(2)
	}
	type heldRef struct {
		h   *rfHolder
		ref *refcount.Ref[*rfVal]
	}
	var keepMu sync.Mutex
	var kept []heldRef
	for a := 0; a < nRefActors; a++ {
		a := a
		seed := r.Uint64()
		rounds := 6 + r.IntN(25)
		keepOne := r.IntN(2) == 0
		c.Go(fmt.Sprint("ref", a), func() {
			x := &xorshift{x: seed | 1}
			var mine []heldRef
			for i := 0; i < rounds && !stopped(); i++ {
				if len(mine) < 3 && x.IntN(3) != 0 {
					withCb := x.IntN(4) != 0
					h := w.newHolder("ref", withCb)
					var cb func(bool, *rfVal, error)
					if withCb {
						cb = w.refCb(h)
					} else {
						c.Count("addref_nil_callback_calls", 1)
					}
					c.Rec(fmt.Sprint("ref", a), fmt.Sprint("AddRef holder ", h.id, " cb=", withCb), nil)
					resolvedBefore := w.target.GetValue() != nil
					ref := w.rc.AddRef(cb)
					w.heldCount.Add(1)
					if resolvedBefore {
						c.Count("references_added_after_resolution", 1)
						if prop == "C09" {
							c.NonTrivial()
						}
					}
					mine = append(mine, heldRef{h, ref})
				} else if len(mine) > 0 {
					j := x.IntN(len(mine))
					hr := mine[j]
					hr.h.releasing.Store(true)
					c.Rec(fmt.Sprint("ref", a), fmt.Sprint("Release holder ", hr.h.id), nil)
					w.decHeld()
					hr.ref.Release()
					hr.h.gone.Store(true)
					if x.IntN(4) == 0 {
						hr.ref.Release()
					}
					mine = append(mine[:j], mine[j+1:]...)
				}
				for k := 0; k < x.IntN(4); k++ {
					runtime.Gosched()
				}
			}
			for len(mine) > 0 {
				if keepOne && len(mine) == 1 {
					break
				}
				hr := mine[0]
				hr.h.releasing.Store(true)
				c.Rec(fmt.Sprint("ref", a), fmt.Sprint("Release holder ", hr.h.id, " (wind-down)"), nil)
				w.decHeld()
				hr.ref.Release()
				hr.h.gone.Store(true)
				mine = mine[1:]
			}
			keepMu.Lock()
			kept = append(kept, mine...)
			keepMu.Unlock()
		})
	}
	// ---- invalidator
	nInv := r.IntN(8)
	burst := prop == "C09"
	c.Go("invalidator", func() {
		for i := 0; i < nInv && !stopped(); i++ {
			for k := 0; k < 10; k++ {
				runtime.Gosched()
			}
			gl := w.genList()
			if len(gl) == 0 {
				continue
			}
			g := gl[len(gl)-1]
			reps := 1
			if burst && i%2 == 0 {
				reps = 2 + i%3
			}
			if len(gl) >= 2 && i%4 == 3 {
				// a late released() of a result that was replaced long ago: documented to do nothing (no mark: it excuses nothing)
				old := gl[i%(len(gl)-1)]
				if old.Ret() != 0 && old.released != nil && (old.relCount.Load() != 0 || !old.HasRel()) {
					c.Count("stale_released_calls", 1)
					old.released()
				}
			}
			for q := 0; q < reps; q++ {
				gl = w.genList()
				g = gl[len(gl)-1]
				if g.invalid.CompareAndSwap(0, c.Stamp()) {
					c.Rec("invalidator", fmt.Sprint("released() of g", g.g), nil)
					invalidations.Add(1)
					if consumersInFlight.Load() > 0 {
						invalidInConsumer.Add(1)
					}
				}
				func() {
					defer func() {
						if p := recover(); p != nil {
							c.Violate("panic", "refcount-released-panic", "released() panicked: %v", p)
						}
					}()
					g.released()
				}()
			}
			if burst && w.active.Load() > 0 && reps >= 2 {
				c.Count("restarts_inside_resolver_return", 1)
				if prop == "C09" {
					c.NonTrivial()
				}
			}
		}
	})
	// ---- context changer
	nCtx := r.IntN(7)
	c.Go("ctx", func() {
		x := &xorshift{x: seedB | 1}
		// containerCtx is what the container was last given (rootCtx by the constructor if withCtx)
		var containerCtx context.Context
		if withCtx {
			containerCtx = rootCtx
		}
		for i := 0; i < nCtx && !stopped(); i++ {
			for k := 0; k < 15; k++ {
				runtime.Gosched()
			}
			ctxMu.Lock()
			if len(cx.all) >= 2 && x.IntN(5) == 0 {
				// a context the container was given earlier and that has since been replaced is cancelled by its owner: no business of the container's
				c.Rec("ctx", "cancel a context that was replaced earlier", nil)
				c.Count("replaced_context_cancelled", 1)
				cx.all[x.IntN(len(cx.all)-1)]()
			}
			ctxOp := x.IntN(6)
			// SetContext with the context the container already has is documented to do nothing: it is no excuse for anything
			sameCtxOp := ctxOp == 4 && cx.cur != nil && containerCtx == cx.cur
			if !sameCtxOp {
				w.ctxEpoch.Add(1)
			}
			switch ctxOp {
			case 0, 1, 2:
				ctx, tag := cx.fresh()
				done := x.IntN(8) == 0
				if done {
					// a context that is already done: same bookkeeping as a context cancelled behind the container's back
					ctx, tag = cx.freshDone(x.IntN(2))
					c.Count("setcontext_done_context_calls", 1)
				}
				c.Rec("ctx", fmt.Sprint("SetContext new#", tag, " done=", done), nil)
				w.ccStart.Add(1)
				w.rc.SetContext(ctx)
				containerCtx = ctx
				ctxLive, ctxCleared, ctxRootCancelled = !done, false, done
				curRoot = cx.cancel
			case 3:
				c.Rec("ctx", "ClearContext", nil)
				w.rc.ClearContext()
				containerCtx = nil
				ctxLive, ctxCleared, ctxRootCancelled = false, true, false
			case 4:
				if cx.cur != nil {
					c.Rec("ctx", fmt.Sprint("SetContext with the last context (the container's current one: ", sameCtxOp, ")"), nil)
					if sameCtxOp {
						c.Count("setcontext_same_context_calls", 1)
					}
					w.rc.SetContext(cx.cur)
					containerCtx = cx.cur
					ctxLive, ctxCleared = cx.cur.Err() == nil, false
				}
			default:
				if ctxLive && curRoot != nil {
					c.Rec("ctx", "cancel the root context behind the container's back", nil)
					curRoot()
					ctxLive, ctxRootCancelled = false, true
				}
			}
			if !sameCtxOp {
				w.ctxEpoch.Add(1)
			}
			ctxMu.Unlock()
		}
	})
	// ---- consumers
	nCons := r.IntN(3)
	if prop == "C10" {
		nCons = 2 + r.IntN(4)
	}
	consumers := make([]*rfConsumer, nCons)
	kinds := []string{"wait", "resolve", "rwr", "access", "access", "cwait"}
	for i := range consumers {
		cs := &rfConsumer{id: i, kind: kinds[r.IntN(len(kinds))], cbMode: r.IntN(3)}
		cs.ctx, cs.cancel = context.WithCancel(context.Background())
		consumers[i] = cs
		delay := r.IntN(40)
		holdFor := r.IntN(30)
		cancelAfter := -1
		if r.IntN(4) == 0 {
			cancelAfter = r.IntN(60)
		}
		name := fmt.Sprint("cons", i)
		c.Go(name, func() {
			for k := 0; k < delay; k++ {
				runtime.Gosched()
			}
			consumersInFlight.Add(1)
			defer consumersInFlight.Add(-1)
			cs.call = c.Rec(name, "call "+cs.kind, nil)
			var rel func()
			switch cs.kind {
			case "wait":
				var ref *refcount.Ref[*rfVal]
				cs.val, ref, cs.err = w.rc.Wait(cs.ctx)
				if ref != nil {
					rel = ref.Release
				}
			case "resolve":
				cs.val, rel, cs.err = w.rc.Resolve(cs.ctx)
			case "rwr":
				cs.val, rel, cs.err = w.rc.ResolveWithReleased(cs.ctx, func() { cs.relCbCount.Add(1) })
			case "cwait":
				// no reference of its own: waits on the target containers
				cs.val, cs.err = refcount.WaitRefCountContainer(cs.ctx, w.target, w.targetErr)
			default:
				cs.err = w.rc.Access(cs.ctx, func(ctx context.Context, v *rfVal) error {
					inv := &rfInv{val: v, ctx: ctx}
					cs.invMu.Lock()
					inv.n = len(cs.invs)
					cs.invs = append(cs.invs, inv)
					cs.invMu.Unlock()
					inv.token = fmt.Errorf("access-%d-inv-%d", cs.id, inv.n)
					c.Count("access_invocations", 1)
					inv.enter = c.Rec(name, fmt.Sprint("access cb enter inv ", inv.n, " val ", valID(v)), nil)
					switch cs.cbMode {
					case 1:
						<-ctx.Done()
					case 2:
						select {
						case <-ctx.Done():
						case <-stop:
						}
					}
					inv.pre = c.Rec(name, fmt.Sprint("access cb return inv ", inv.n), nil)
					inv.done.Store(true)
					if inv.n%2 == 0 {
						return inv.token
					}
					return nil
				})
			}
			if rel != nil && cs.err == nil {
				cs.holder = w.newHolder(cs.kind, false)
				cs.holder.val.Store(cs.val)
				// the value handed out is pinned by the consumer's reference: it may only have been released
				// already if it was invalidated or the context changed meanwhile
				if g := w.genOf(cs.val); g != nil && !w.sameValue && g.relCount.Load() != 0 &&
					g.invalid.Load() == 0 && w.ctxEpoch.Load() == g.ctxEpoch && g.ctxEpoch%2 == 0 {
					c.Violate("consumer", "refcount-consumer-got-released-value", "%s of consumer %d returned g%d, whose release function had already run (at %d) although it was neither invalidated nor the context changed: the returned reference does not protect the value", cs.kind, cs.id, g.g, g.relStamp.Load())
				}
			}
			cs.ret = c.Rec(name, fmt.Sprint("ret ", cs.kind, " val ", valID(cs.val), " err ", cs.err), nil)
			cs.returned.Store(true)
			if rel != nil {
				for k := 0; k < holdFor; k++ {
					runtime.Gosched()
				}
				if cs.holder != nil {
					cs.holder.releasing.Store(true)
				}
				cs.releaseCall.Store(c.Rec(name, "release", nil))
				rel()
				if cs.holder != nil {
					cs.holder.gone.Store(true)
				}
			}
		})
		if cancelAfter >= 0 {
			c.Go(name+"-cancel", func() {
				for k := 0; k < cancelAfter; k++ {
					runtime.Gosched()
				}
				cs.cancelStamp.Store(c.Rec(name, "cancel caller ctx", nil))
				cs.cancel()
				cs.cancelDone.Store(c.Stamp())
			})
		}
	}

	// ---- let it run, then stop the actors
	waitBudget := 300 + r.IntN(500)
	for k := 0; k < waitBudget; k++ {
		runtime.Gosched()
	}
	// before any gate is opened: a resolver call that is still running although the context was replaced after it
	// entered, or although its own released() was called, has been superseded - the context it was given must be cancelled
	// (otherwise a resolver that honours its context never makes room for the fresh resolution)
	if mon.Quiesce(10 * time.Second) {
		c.Count("stale_resolver_context_judgements", 1)
		for _, g := range w.genList() {
			if g.Ret() != 0 || g.ctx.Err() != nil {
				continue
			}
			switch {
			case w.ccStart.Load() > g.ccStart:
				c.Violate("resolver", "refcount-superseded-resolver-context-live", "resolver call g%d is still running with a live context at quiescence although SetContext replaced the container's context after the call had entered", g.g)
			case g.invalid.Load() != 0:
				c.Violate("resolver", "refcount-superseded-resolver-context-live", "resolver call g%d is still running with a live context at quiescence although its released() callback was called (at %d)", g.g, g.invalid.Load())
			}
		}
	}
	// open gates of resolvers that ignore their context, one by one, then stop
	for _, g := range w.genList() {
		select {
		case <-g.gate:
		default:
			close(g.gate)
		}
	}
	mon.DebugKeepDump = os.Getenv("VERIF_DEBUG_QUIESCE") != ""
	quiet := func(what string) bool {
		for round := 0; round < 50; round++ {
			if !mon.Quiesce(10 * time.Second) {
				c.Inconclusive("no quiescence " + what)
				return false
			}
			// resolvers started later may again wait on a gate
			opened := false
			for _, g := range w.genList() {
				select {
				case <-g.gate:
				default:
					close(g.gate)
					opened = true
				}
			}
			if !opened {
				if s2 := mon.TakeSnapshot(true); s2.NotQuiet != 0 && os.Getenv("VERIF_DEBUG_QUIESCE") != "" {
					fmt.Fprintf(os.Stderr, "QUIESCE-ANOMALY states %v\n%s\n=== snapshot judged quiet:\n%s\n", s2.States, s2.Dump, mon.LastQuietDump)
				}
				return true
			}
		}
		c.Inconclusive("resolvers keep starting")
		return false
	}
	if !quiet("after the workload") {
		close(stop)
		return
	}
	ctxMu.Lock()
	liveCtx, clearedCtx := ctxLive, ctxCleared
	_ = ctxRootCancelled
	ctxMu.Unlock()
	keepMu.Lock()
	heldNow := append([]heldRef(nil), kept...)
	keepMu.Unlock()

	// calls still blocked at quiescence: reference actors, invalidator, ctx changer must have finished
	// (consumers may legitimately be blocked: no value, or a callback that runs until told)
	// -> WaitActors below after stop

	gens := w.genList()
	if invalidInConsumer.Load() > 0 && prop == "C10" {
		c.Count("invalidations_inside_consumer_call", invalidInConsumer.Load())
		c.NonTrivial()
	}
	stale := 0
	for i, g := range gens {
		if i < len(gens)-1 && g.HasRel() {
			stale++
		}
	}
	if stale > 0 {
		c.Count("stale_resolver_results", int64(stale))
		if prop == "C08" {
			c.NonTrivial()
		}
	}

	// ----- C08 audit at quiescence
	c.Rec("judge", fmt.Sprintf("quiescent audit: liveCtx=%v cleared=%v held=%d gens=%d", liveCtx, clearedCtx, len(heldNow), len(gens)), nil)
	c.Count("quiescent_release_audits", 1)
	accessHolds := 0
	for _, cs := range consumers {
		if cs.kind == "access" && !cs.returned.Load() {
			accessHolds++
		}
		if cs.holder != nil && !cs.holder.gone.Load() {
			accessHolds++ // a consumer that has not released yet (cannot happen at quiescence, kept for safety)
		}
	}
	blockedConsumers := 0
	for _, cs := range consumers {
		if !cs.returned.Load() && cs.kind != "cwait" {
			blockedConsumers++ // Wait/Resolve callers blocked inside hold an internal reference too
		}
	}
	refsHeld := len(heldNow) + blockedConsumers
	for i, g := range gens {
		n := g.relCount.Load()
		last := i == len(gens)-1
		if !g.HasRel() || g.Ret() == 0 {
			continue
		}
		if !last {
			if n != 1 {
				c.Violate("release", "refcount-superseded-value-not-released", "resolver call g%d was superseded by g%d, yet its release function ran %d times at quiescence", g.g, gens[len(gens)-1].g, n)
			}
			continue
		}
		mustBeReleased := g.invalid.Load() != 0 || clearedCtx || (refsHeld == 0 && !(keepUnref && g.Err() == nil))
		if n == 0 && mustBeReleased {
			snap := mon.TakeSnapshot(true)
			c.Violate("release", "refcount-value-not-released", "the newest value g%d has not been released at quiescence although it must be: invalidated=%v (mark at %d), context cleared=%v, references held=%d, keep-unreferenced=%v, resolver error=%v, target holds %s; goroutine states %v\n%s", g.g, g.invalid.Load() != 0, g.invalid.Load(), clearedCtx, refsHeld, keepUnref, g.Err(), valID(w.target.GetValue()), snap.States, snap.Dump)
		}
	}

	// ----- C09 delivery at quiescence
	if liveCtx && refsHeld > 0 {
		c.Count("quiescent_delivery_judgements", 1)
		if len(gens) == 0 {
			c.Violate("resolver", "refcount-never-resolved", "the container has a live context and %d references at quiescence but the resolver was never called", refsHeld)
		} else {
			g := gens[len(gens)-1]
			if g.invalid.Load() != 0 && g.invalid.Load() > g.enter {
				c.Violate("resolver", "refcount-released-did-not-reresolve", "released() of g%d was called (at %d) while it was the newest resolver call (entered %d), the container has a live context and %d references, yet no newer resolver call was made by quiescence", g.g, g.invalid.Load(), g.enter, refsHeld)
			} else if g.Ret() == 0 {
				c.Violate("resolver", "refcount-resolver-stuck", "resolver call g%d has not returned at quiescence", g.g)
			} else if g.relCount.Load() != 0 {
				c.Violate("resolver", "refcount-not-resolved-while-referenced", "the newest value g%d was released (at %d) but no newer resolver call was made although the container has a live context and %d references at quiescence", g.g, g.relStamp.Load(), refsHeld)
			} else {
				// result delivered to the target containers and to every held reference with a callback
				if g.Err() == nil {
					if !w.sameValue && w.target.GetValue() != g.Val() {
						c.Violate("resolver", "refcount-target-not-updated", "the newest result g%d is not in the target container at quiescence (holds %s)", g.g, valID(w.target.GetValue()))
					}
					if pe := w.targetErr.GetValue(); pe != nil {
						c.Violate("resolver", "refcount-stale-error-in-error-container", "the newest result g%d is a value, yet the error container still holds %v", g.g, *pe)
					}
				} else if pe := w.targetErr.GetValue(); pe != nil && *pe == g.Err() {
					// what was published is a snapshot: it must still read the same after the container moved on
					errSnapP, errSnapE = pe, *pe
					c.Count("published_error_snapshots", 1)
				} else if pe == nil || *pe != g.Err() {
					c.Violate("resolver", "refcount-target-error-not-updated", "the newest result g%d is the error %v but the error container holds %v", g.g, g.Err(), pe)
				}
				for _, hr := range heldNow {
					if !hr.h.hasCb {
						continue
					}
					ok := hr.h.lastRes.Load()
					if g.Err() == nil {
						ok = ok && hr.h.val.Load() == g.Val()
					} else {
						pe := hr.h.lastErr.Load()
						ok = ok && pe != nil && *pe == g.Err()
					}
					if !ok {
						c.Violate("resolver", "refcount-reference-not-told", "held reference %d (callbacks received: %d) was not told the newest result g%d (val %s err %v): last callback resolved=%v val=%s", hr.h.id, hr.h.cbCount.Load(), g.g, valID(g.Val()), g.Err(), hr.h.lastRes.Load(), valID(hr.h.val.Load()))
						break
					}
				}
			}
		}
	}

	// ----- consumers blocked although the newest result is delivered
	if liveCtx && len(gens) > 0 {
		g := gens[len(gens)-1]
		if g.Ret() != 0 && g.relCount.Load() == 0 && g.invalid.Load() == 0 {
			for _, cs := range consumers {
				if cs.kind == "cwait" && w.target.GetValue() == nil && w.targetErr.GetValue() == nil {
					continue // holds no reference: the result may have come and gone; the containers are empty now
				}
				if cs.kind != "access" && !cs.returned.Load() && cs.cancelStamp.Load() == 0 {
					if mon.QuiesceConfirmed(50*time.Millisecond, 5*time.Second) && !cs.returned.Load() {
						c.Violate("consumer", "refcount-consumer-blocked-with-result", "%s of consumer %d is still blocked at quiescence although the newest resolver call g%d returned (val %s, err %v) and its result is current", cs.kind, cs.id, g.g, valID(g.Val()), g.Err())
					}
				}
			}
		}
	}

	// ----- C10 at quiescence: Access invocations
	var newest *rfGen
	if len(gens) > 0 {
		newest = gens[len(gens)-1]
	}
	for _, cs := range consumers {
		if cs.kind != "access" {
			continue
		}
		cs.invMu.Lock()
		invs := append([]*rfInv(nil), cs.invs...)
		cs.invMu.Unlock()
		for _, inv := range invs {
			if inv.done.Load() || w.sameValue {
				continue
			}
			if g := w.genOf(inv.val); g != nil && g.relCount.Load() > 0 && inv.ctx.Err() == nil && cs.cbMode == 1 {
				c.Violate("access", "refcount-access-ctx-not-cancelled", "Access callback invocation %d of consumer %d still runs on value g%d with a live context at quiescence although that value was released (invalidated) at %d", inv.n, cs.id, g.g, g.relStamp.Load())
			}
		}
		if !cs.returned.Load() && cs.cancelStamp.Load() == 0 && liveCtx && newest != nil && newest.Err() == nil && newest.relCount.Load() == 0 && newest.Ret() != 0 && !w.sameValue {
			// Access is still inside: it must be running its callback on the newest value
			running := false
			for _, inv := range invs {
				if !inv.done.Load() && inv.val == newest.Val() {
					running = true
				}
			}
			if !running {
				c.Violate("access", "refcount-access-not-reinvoked", "Access of consumer %d has not returned at quiescence, the newest value g%d is resolved and valid, but no callback invocation is running on it (invocations: %d)", cs.id, newest.g, len(invs))
			}
		}
	}

	// ----- stop: cancel consumers, release held refs, clear context; everything must be released exactly once
	w.endingCase.Store(true)
	close(stop)
	for _, cs := range consumers {
		if cs.cancelStamp.Load() == 0 {
			cs.cancelStamp.Store(c.Stamp())
		}
		cs.cancel()
	}
	for _, hr := range heldNow {
		hr.h.releasing.Store(true)
		hr.ref.Release()
		hr.h.gone.Store(true)
	}
	w.ctxEpoch.Add(1)
	w.rc.ClearContext()
	w.ctxEpoch.Add(1)
	if !quiet("after the final ClearContext") {
		return
	}
	if !c.WaitActors(5 * time.Second) {
		if mon.Quiesce(5*time.Second) && !c.Violated() {
			c.Violate("hang", "refcount-call-blocked", "an API call (AddRef/Release/SetContext/released/Wait/Resolve/Access) is still blocked in a quiescent process after every context was cancelled and every reference released")
		}
		return
	}
	c.Count("final_all_released_audits", 1)
	for _, g := range w.genList() {
		if g.HasRel() && g.relCount.Load() != 1 {
			c.Violate("release", "refcount-release-count-final", "after releasing every reference and clearing the context the release function of g%d has run %d times, want exactly once", g.g, g.relCount.Load())
			break
		}
	}
	if v := w.target.GetValue(); v != nil {
		c.Violate("release", "refcount-target-not-cleared", "after ClearContext the target container still holds %s", valID(v))
	}
	if pe := w.targetErr.GetValue(); pe != nil {
		c.Violate("release", "refcount-target-error-not-cleared", "after ClearContext the error container still holds %v", *pe)
	}
	if errSnapP != nil && *errSnapP != errSnapE {
		c.Violate("resolver", "refcount-published-error-changed", "the error pointer published in the error container read %v at the quiescent audit and reads %v after the container moved on: a delivered result changed after the fact", errSnapE, *errSnapP)
	}

	// ----- consumer returns
	for _, cs := range consumers {
		if !cs.returned.Load() {
			continue
		}
		c.Count("consumer_returns_judged", 1)
		cancelled := cs.cancelStamp.Load() != 0 && cs.cancelStamp.Load() < cs.ret
		if cs.kind == "access" {
			c.Count("access_returns_judged", 1)
			judgeAccess(c, w, cs, cancelled)
			continue
		}
		if cs.err != nil {
			if cs.err == context.Canceled && cancelled {
				continue
			}
			found := false
			for _, g := range w.genList() {
				if g.Err() != nil && g.Err() == cs.err && g.Ret() != 0 && g.Ret() < cs.ret {
					found = true
				}
			}
			if !found && !(cs.err == context.Canceled) {
				c.Violate("consumer", "refcount-consumer-foreign-error", "%s of consumer %d returned %v, which is neither a resolver error delivered before the return nor its own cancellation", cs.kind, cs.id, cs.err)
			}
			continue
		}
		if !w.sameValue {
			g := w.genOf(cs.val)
			if g == nil {
				c.Violate("consumer", "refcount-consumer-foreign-value", "%s of consumer %d returned a value no resolver call produced", cs.kind, cs.id)
				continue
			}
			if cs.kind == "rwr" {
				c.Count("released_callbacks_audited", 1)
				n := cs.relCbCount.Load()
				rs := g.relStamp.Load()
				if n > 1 {
					c.Violate("consumer", "refcount-released-callback-twice", "the released callback of ResolveWithReleased (consumer %d) fired %d times", cs.id, n)
				} else if n == 0 && rs != 0 && rs > cs.ret && rs < cs.releaseCall.Load() {
					c.Violate("consumer", "refcount-released-callback-missing", "consumer %d held g%d from ResolveWithReleased (return %d, release %d); the value was released at %d inside that interval, but the released callback never fired", cs.id, g.g, cs.ret, cs.releaseCall.Load(), rs)
				}
			}
		}
	}
}

func valID(v *rfVal) string {
	if v == nil {
		return "nil"
	}
	return fmt.Sprint("v", v.id)
}

// judgeAccess checks the return value of Access against its invocations and the release stamps.
func judgeAccess(c *mon.Case, w *rfWorld, cs *rfConsumer, cancelled bool) {
	cs.invMu.Lock()
	invs := append([]*rfInv(nil), cs.invs...)
	cs.invMu.Unlock()
	gens := w.genList()
	// invocation values must be delivered values not already released before Access was called, in resolution order
	var lastGen *rfGen
	for _, inv := range invs {
		if w.sameValue {
			break
		}
		g := w.genOf(inv.val)
		if g == nil {
			c.Violate("access", "refcount-access-foreign-value", "Access callback invocation %d of consumer %d got a value no resolver call produced", inv.n, cs.id)
			return
		}
		if rs := g.relStamp.Load(); rs != 0 && rs < cs.call {
			c.Violate("access", "refcount-access-stale-value", "Access (called at %d) invoked its callback with g%d which had been released at %d", cs.call, g.g, rs)
			return
		}
		if lastGen != nil && g.g < lastGen.g {
			c.Violate("access", "refcount-access-value-went-back", "Access of consumer %d invoked its callback with g%d after it had already been invoked with the newer g%d", cs.id, g.g, lastGen.g)
			return
		}
		lastGen = g
	}
	releasedWithin := func(inv *rfInv) *rfGen {
		for _, g := range gens {
			if rs := g.relStamp.Load(); rs != 0 && rs > inv.enter && rs < inv.pre {
				return g
			}
		}
		return nil
	}
	if cs.err == nil {
		// nil: some callback invocation returned nil and its value was not invalidated during it
		var bad *rfInv
		any := false
		for _, inv := range invs {
			if inv.done.Load() && inv.n%2 == 1 {
				if cd := cs.cancelDone.Load(); cd != 0 && cd < inv.pre && inv.n == len(invs)-1 {
					c.Violate("access", "refcount-access-callback-result-despite-cancel", "Access of consumer %d returned nil, the result of its last invocation %d, although the caller's context had been cancelled (at %d) before that invocation returned (at %d)", cs.id, inv.n, cd, inv.pre)
					return
				}
				any = true
				if releasedWithin(inv) == nil {
					return
				}
				bad = inv
			}
		}
		if !any {
			c.Violate("access", "refcount-access-nil-without-callback", "Access of consumer %d returned nil but no callback invocation returned nil (invocations: %d)", cs.id, len(invs))
			return
		}
		g := releasedWithin(bad)
		c.Violate("access", "refcount-access-returned-invalidated-result", "Access of consumer %d returned nil, the result of invocation %d (entered %d, returned %d), but g%d was released at %d inside that invocation: the value was invalidated and the callback must be invoked again", cs.id, bad.n, bad.enter, bad.pre, g.g, g.relStamp.Load())
		return
	}
	if cs.err == context.Canceled && cancelled {
		return
	}
	for _, inv := range invs {
		if inv.token == cs.err || (inv.done.Load() && inv.token.Error() == cs.err.Error()) {
			if cd := cs.cancelDone.Load(); cd != 0 && cd < inv.pre {
				c.Violate("access", "refcount-access-callback-result-despite-cancel", "Access of consumer %d returned %v, the result of invocation %d, although the caller's context had been cancelled (at %d) before that invocation returned (at %d): a cancelled caller context must be returned as context.Canceled", cs.id, cs.err, inv.n, cd, inv.pre)
				return
			}
			if g := releasedWithin(inv); g != nil {
				c.Violate("access", "refcount-access-returned-invalidated-result", "Access of consumer %d returned %v, the result of invocation %d (entered %d, returned %d), but g%d was released at %d inside that invocation: the value was invalidated and the callback must be invoked again with the replacement", cs.id, cs.err, inv.n, inv.enter, inv.pre, g.g, g.relStamp.Load())
			}
			return
		}
	}
	for _, g := range gens {
		if g.Err() != nil && g.Err() == cs.err && g.Ret() != 0 && g.Ret() < cs.ret {
			return
		}
	}
	if cs.err == context.Canceled {
		// a resolver that returned ctx.Err()? not in the scripts; the caller was not cancelled
		c.Violate("access", "refcount-access-canceled-without-cancel", "Access of consumer %d returned context.Canceled at %d but its context was cancelled at %d (0 = never) and no callback returned it", cs.id, cs.ret, cs.cancelStamp.Load())
		return
	}
	c.Violate("access", "refcount-access-foreign-error", "Access of consumer %d returned %v: neither a callback result, nor a resolver error, nor its own cancellation", cs.id, cs.err)
}

// rfGatedCase holds resolver A in its return path, restarts twice, reaches quiescence: nothing else may have entered.
func rfGatedCase(c *mon.Case) {
	r := c.Rng
	behave := func(g int) (int, int) {
		if g == 1 {
			return rfIgnoreCtx, 0
		}
		return rfValue, 0
	}
	rootCtx, rootCancel := context.WithCancel(context.Background())
	defer rootCancel()
	w := newRfWorld(c, r.IntN(2) == 0, false, true, rootCtx, behave)
	defer close(w.endCase)
	h := w.newHolder("ref", true)
	ref := w.rc.AddRef(w.refCb(h))
	if !mon.Quiesce(5 * time.Second) {
		c.Inconclusive("no quiescence at start")
		return
	}
	gl := w.genList()
	if len(gl) != 1 {
		snap := mon.TakeSnapshot(true)
		time.Sleep(20 * time.Millisecond)
		c.Violate("resolver", "refcount-never-resolved", "after AddRef with a live context %d resolver calls were made at quiescence, want 1 (20 ms later: %d); states %v\n%s", len(gl), len(w.genList()), snap.States, snap.Dump)
		return
	}
	cx := &rtCtxs{}
	defer cx.cancelAll()
	k := 2 + r.IntN(4)
	var ops []string
	for i := 0; i < k; i++ {
		switch r.IntN(3) {
		case 0:
			ctx, _ := cx.fresh()
			w.ctxEpoch.Add(1)
			w.rc.SetContext(ctx)
			w.ctxEpoch.Add(1)
			ops = append(ops, "SetContext(new)")
		case 1:
			gl[0].invalid.CompareAndSwap(0, c.Stamp())
			gl[0].released()
			ops = append(ops, "released()")
		default:
			h2 := w.newHolder("ref", true)
			r2 := w.rc.AddRef(w.refCb(h2))
			h2.releasing.Store(true)
			r2.Release()
			h2.gone.Store(true)
			ops = append(ops, "AddRef+Release")
		}
	}
	c.Rec("d", fmt.Sprint("while g1 is held in its return path: ", ops), nil)
	c.Count("gated_templates", 1)
	c.Count("restarts_inside_resolver_return", 1)
	c.NonTrivial()
	if !mon.Quiesce(5 * time.Second) {
		c.Inconclusive("no quiescence while g1 is held")
		return
	}
	if n := len(w.genList()); n != 1 && !c.Violated() {
		c.Violate("resolver", "refcount-resolver-overlap", "resolver call g1 is held before returning; after %v a second resolver call entered although g1 had not returned", ops)
	}
	close(gl[0].gate)
	if !mon.Quiesce(5 * time.Second) {
		c.Inconclusive("no quiescence after release")
		return
	}
	h.releasing.Store(true)
	ref.Release()
	h.gone.Store(true)
	w.rc.ClearContext()
	mon.Quiesce(5 * time.Second)
}

// rfRootCancelCase: the owner cancels the container's context while the only resolver call is in flight;
// nothing else happens. The call's result (usually the context's error) must still be delivered.
func rfRootCancelCase(c *mon.Case) {
	r := c.Rng
	outcome := []int{rfIgnoreCtx, rfErrorWithRelAfterCancel, rfValueAfterCancel}[r.IntN(3)]
	behave := func(g int) (int, int) {
		if g == 1 {
			return outcome, 0
		}
		return rfValue, 0
	}
	rootCtx, rootCancel := context.WithCancel(context.Background())
	defer rootCancel()
	w := newRfWorld(c, r.IntN(2) == 0, false, true, rootCtx, behave)
	defer close(w.endCase)
	h := w.newHolder("ref", true)
	ref := w.rc.AddRef(w.refCb(h))
	if !mon.Quiesce(5 * time.Second) {
		c.Inconclusive("no quiescence at start")
		return
	}
	gl := w.genList()
	if len(gl) != 1 || gl[0].Ret() != 0 {
		c.Inconclusive("resolver not in flight")
		return
	}
	c.Rec("d", "cancel the root context while g1 is in flight", nil)
	rootCancel()
	close(gl[0].gate)
	if !mon.Quiesce(5 * time.Second) {
		c.Inconclusive("no quiescence after the cancellation")
		return
	}
	c.Count("root_cancel_templates", 1)
	c.NonTrivial()
	c.Mix(uint64(outcome))
	g := gl[0]
	if len(w.genList()) != 1 || g.Ret() == 0 {
		c.Inconclusive("unexpected resolver activity")
		return
	}
	delivered := h.lastRes.Load() && g.relCount.Load() == 0
	if g.Err() == nil {
		delivered = delivered && h.val.Load() == g.Val() && w.target.GetValue() == g.Val()
	} else {
		pe, le := w.targetErr.GetValue(), h.lastErr.Load()
		delivered = delivered && pe != nil && *pe == g.Err() && le != nil && *le == g.Err()
	}
	if !delivered {
		c.Violate("resolver", "refcount-result-dropped", "the container's context was cancelled by its owner while the only resolver call g1 was in flight; nothing else happened; the call returned (val %s, err %v) but its result was not delivered: reference told resolved=%v, release func ran %d times, target holds %s", valID(g.Val()), g.Err(), h.lastRes.Load(), g.relCount.Load(), valID(w.target.GetValue()))
	}
	h.releasing.Store(true)
	ref.Release()
	h.gone.Store(true)
	w.rc.ClearContext()
	mon.Quiesce(5 * time.Second)
}

// rfAccessOneInvalidationCase: one Access whose callback runs until its context is cancelled, exactly one
// invalidation at a swept moment, nothing afterwards: the callback must be cancelled and re-invoked on the replacement.
func rfAccessOneInvalidationCase(c *mon.Case) {
	r := c.Rng
	behave := func(g int) (int, int) { return rfValue, 0 }
	rootCtx, rootCancel := context.WithCancel(context.Background())
	defer rootCancel()
	w := newRfWorld(c, r.IntN(2) == 0, false, true, rootCtx, behave)
	defer close(w.endCase)
	h := w.newHolder("ref", true)
	ref := w.rc.AddRef(w.refCb(h))
	if !mon.Quiesce(5 * time.Second) {
		c.Inconclusive("no quiescence at start")
		return
	}
	type inv struct {
		val  *rfVal
		ctx  context.Context
		done atomic.Bool
	}
	var mu sync.Mutex
	var invs []*inv
	actx, acancel := context.WithCancel(context.Background())
	defer acancel()
	var accessErr error
	var returned atomic.Bool
	c.Go("access", func() {
		accessErr = w.rc.Access(actx, func(ctx context.Context, v *rfVal) error {
			in := &inv{val: v, ctx: ctx}
			mu.Lock()
			invs = append(invs, in)
			mu.Unlock()
			c.Rec("access", "cb enter "+valID(v), nil)
			<-ctx.Done()
			in.done.Store(true)
			c.Rec("access", "cb return "+valID(v), nil)
			return nil
		})
		returned.Store(true)
	})
	for k := 0; k < r.IntN(60); k++ {
		runtime.Gosched()
	}
	gl := w.genList()
	g := gl[len(gl)-1]
	g.invalid.CompareAndSwap(0, c.Stamp())
	c.Rec("invalidator", fmt.Sprint("released() of g", g.g), nil)
	g.released()
	if !mon.Quiesce(5 * time.Second) {
		c.Inconclusive("no quiescence after the invalidation")
		return
	}
	c.Count("access_single_invalidation_cases", 1)
	c.NonTrivial()
	gl = w.genList()
	newest := gl[len(gl)-1]
	mu.Lock()
	cur := append([]*inv(nil), invs...)
	mu.Unlock()
	c.Mix(uint64(len(cur))<<8 | uint64(len(gl)))
	for i, in := range cur {
		if gg := w.genOf(in.val); gg != nil && gg.relCount.Load() > 0 && !in.done.Load() && in.ctx.Err() == nil {
			if mon.QuiesceConfirmed(50*time.Millisecond, 5*time.Second) && !in.done.Load() && in.ctx.Err() == nil {
				c.Violate("access", "refcount-access-ctx-not-cancelled", "Access callback invocation %d still runs on g%d with a live context at quiescence although that value was invalidated (released at %d) and nothing else will happen", i, gg.g, gg.relStamp.Load())
			}
		}
	}
	if !c.Violated() && !returned.Load() && newest.Ret() != 0 && newest.relCount.Load() == 0 {
		running := false
		for _, in := range cur {
			if !in.done.Load() && in.val == newest.Val() {
				running = true
			}
		}
		if !running {
			c.Violate("access", "refcount-access-not-reinvoked", "after one invalidation the newest value g%d is resolved and valid, Access has not returned, but no callback invocation is running on it (%d invocations so far)", newest.g, len(cur))
		}
	}
	acancel()
	h.releasing.Store(true)
	ref.Release()
	h.gone.Store(true)
	w.rc.ClearContext()
	mon.Quiesce(5 * time.Second)
	_ = accessErr
}

// rfZeroValueCase: RefCount[int] whose resolver resolves to 0 (the zero value of T) with a release function.
// The result has to be delivered like any other: callbacks told (true, 0, nil), Wait/Resolve return (0, nil),
// Access invokes its callback with 0 and re-invokes it after an invalidation; the release function runs exactly once per result.
func rfZeroValueCase(c *mon.Case, prop string) {
	r := c.Rng
	variant := r.IntN(4)
	invalidate := r.IntN(2) == 0
	secondVal := 0
	if r.IntN(2) == 0 {
		secondVal = 7
	}
	var mu sync.Mutex
	var calls int
	var rels [3]atomic.Int64
	var releasedFns []func()
	resolver := func(ctx context.Context, released func()) (int, func(), error) {
		mu.Lock()
		n := calls
		calls++
		releasedFns = append(releasedFns, released)
		mu.Unlock()
		c.Rec("resolver", fmt.Sprint("call ", n), nil)
		if n >= 2 {
			<-ctx.Done()
			return 0, nil, context.Canceled
		}
		v := 0
		if n == 1 {
			v = secondVal
		}
		return v, func() { rels[n].Add(1) }, nil
	}
	keep := r.IntN(3) == 0
	rc := refcount.NewRefCount[int](nil, keep, nil, nil, resolver)
	ctx, cancel := context.WithCancel(context.Background())
	defer cancel()
	rc.SetContext(ctx)
	var got []int
	var gmu sync.Mutex
	var done atomic.Bool
	var resErr error
	var rel func()
	inCb := make(chan struct{}, 4)
	c.Go("consumer", func() {
		switch variant {
		case 0:
			resErr = rc.Access(ctx, func(cctx context.Context, v int) error {
				gmu.Lock()
				got = append(got, v)
				n := len(got)
				gmu.Unlock()
				c.Rec("consumer", fmt.Sprint("callback with ", v), nil)
				inCb <- struct{}{}
				if invalidate && n == 1 {
					<-cctx.Done() // the driver invalidates the value now; the callback context must be cancelled
				}
				return nil
			})
		case 1:
			var v int
			var ref *refcount.Ref[int]
			v, ref, resErr = rc.Wait(ctx)
			if resErr == nil {
				gmu.Lock()
				got = append(got, v)
				gmu.Unlock()
				rel = ref.Release
			}
		case 2:
			var v int
			v, rel, resErr = rc.ResolveWithReleased(ctx, func() {})
			if resErr == nil {
				gmu.Lock()
				got = append(got, v)
				gmu.Unlock()
			}
		default:
			ref := rc.AddRef(func(resolved bool, v int, err error) {
				if resolved && err == nil {
					gmu.Lock()
					got = append(got, v)
					gmu.Unlock()
				}
			})
			rel = ref.Release
		}
		done.Store(true)
	})
	c.Count("zero_value_cases", 1)
	c.NonTrivial()
	c.Mix(uint64(variant)<<8 | uint64(secondVal)<<2 | uint64(map[bool]int{true: 1}[invalidate])<<1 | uint64(map[bool]int{true: 1}[keep]))
	if !mon.Quiesce(5 * time.Second) {
		c.Inconclusive("no quiescence")
		return
	}
	names := []string{"Access", "Wait", "ResolveWithReleased", "AddRef callback"}
	gmu.Lock()
	n0 := len(got)
	gmu.Unlock()
	if n0 == 0 {
		if mon.QuiesceConfirmed(100*time.Millisecond, 5*time.Second) {
			gmu.Lock()
			n0 = len(got)
			gmu.Unlock()
			if n0 == 0 {
				c.Violate("release", "refcount-zero-value-not-delivered", "the resolver resolved to the zero value (0, release func, nil) but %s has not seen a value in a quiescent process (returned=%v)", names[variant], done.Load())
				return
			}
		}
	}
	gmu.Lock()
	first := got[0]
	gmu.Unlock()
	if first != 0 {
		c.Violate("release", "refcount-zero-value-not-delivered", "%s saw %d, the resolver resolved to 0", names[variant], first)
	}
	if variant == 0 && invalidate {
		// the callback is parked on its context: invalidate the value
		mu.Lock()
		f := releasedFns[0]
		mu.Unlock()
		c.Rec("d", "released() for the zero value", nil)
		f()
		if !mon.Quiesce(5 * time.Second) {
			c.Inconclusive("no quiescence after the invalidation")
			return
		}
		if !done.Load() && mon.QuiesceConfirmed(100*time.Millisecond, 5*time.Second) && !done.Load() {
			gmu.Lock()
			ng := len(got)
			gmu.Unlock()
			c.Violate("access", "refcount-access-not-reinvoked", "the zero value was invalidated during the Access callback and re-resolved to %d; at quiescence Access has not returned (callback invocations so far: %d)", secondVal, ng)
			return
		}
		gmu.Lock()
		ok := len(got) == 2 && got[1] == secondVal
		g2 := append([]int(nil), got...)
		gmu.Unlock()
		if done.Load() && !ok {
			c.Violate("access", "refcount-access-not-reinvoked", "after the invalidation of the zero value Access returned %v with callback invocations %v, want [0 %d]", resErr, g2, secondVal)
		}
		if rels[0].Load() != 1 {
			c.Violate("release", "refcount-release-count-final", "the release function of the invalidated zero value has run %d times at quiescence, want once", rels[0].Load())
		}
	}
	if variant != 0 || !invalidate {
		if variant < 3 && (!done.Load() || resErr != nil) {
			c.Violate("release", "refcount-zero-value-not-delivered", "%s: returned=%v err=%v after the resolver resolved to 0", names[variant], done.Load(), resErr)
		}
	}
	if rel != nil {
		rel()
	}
	rc.ClearContext()
	if !mon.Quiesce(5 * time.Second) {
		c.Inconclusive("no quiescence at the end")
		return
	}
	mu.Lock()
	nc := calls
	mu.Unlock()
	for i := 0; i < nc && i < 2; i++ {
		if k := rels[i].Load(); k != 1 {
			c.Violate("release", "refcount-release-count-final", "after releasing every reference and clearing the context the release function of result %d (zero-value case) has run %d times, want exactly once", i, k)
		}
	}
	_ = prop
}

// rfStaleReleasedCase: the released() callback of a result that was dropped long ago is called late. It is documented
// to do nothing then: the value that is current now stays resolved, is not released, and no resolver call is made.
func rfStaleReleasedCase(c *mon.Case) {
	r := c.Rng
	how := r.IntN(3) // how the first result went away: 0 last reference released, 1 SetContext(new), 2 ClearContext + SetContext
	keep := r.IntN(4) == 0 && how != 0
	var mu sync.Mutex
	var releasedFns []func()
	var rels [8]atomic.Int64
	calls := 0
	resolver := func(ctx context.Context, released func()) (int, func(), error) {
		mu.Lock()
		n := calls
		calls++
		releasedFns = append(releasedFns, released)
		mu.Unlock()
		c.Rec("resolver", fmt.Sprint("call ", n), nil)
		if n >= len(rels) {
			<-ctx.Done()
			return 0, nil, context.Canceled
		}
		return 100 + n, func() { rels[n].Add(1) }, nil
	}
	rc := refcount.NewRefCount[int](nil, keep, nil, nil, resolver)
	ctx1, cancel1 := context.WithCancel(context.Background())
	defer cancel1()
	rc.SetContext(ctx1)
	var last1, last2 atomic.Int64 // last value told to each reference (-1 = told gone)
	ref1 := rc.AddRef(func(resolved bool, v int, err error) {
		if resolved {
			last1.Store(int64(v))
		} else {
			last1.Store(-1)
		}
	})
	if !mon.Quiesce(5 * time.Second) {
		c.Inconclusive("no quiescence")
		return
	}
	ctx2, cancel2 := context.WithCancel(context.Background())
	defer cancel2()
	switch how {
	case 0:
		ref1.Release()
	case 1:
		rc.SetContext(ctx2)
	default:
		rc.ClearContext()
		rc.SetContext(ctx2)
	}
	ref2 := rc.AddRef(func(resolved bool, v int, err error) {
		if resolved {
			last2.Store(int64(v))
		} else {
			last2.Store(-1)
		}
	})
	if !mon.Quiesce(5 * time.Second) {
		c.Inconclusive("no quiescence")
		return
	}
	mu.Lock()
	nBefore := calls
	stale := releasedFns[0]
	mu.Unlock()
	cur := nBefore - 1
	if nBefore < 2 || last2.Load() != int64(100+cur) {
		c.Inconclusive(fmt.Sprintf("unexpected set-up: %d resolver calls, second reference told %d", nBefore, last2.Load()))
		return
	}
	c.Rec("d", "late released() of the first result", nil)
	stale()
	c.Count("stale_released_templates", 1)
	c.NonTrivial()
	c.Mix(uint64(how)<<1 | uint64(map[bool]int{true: 1}[keep]))
	if !mon.Quiesce(5 * time.Second) {
		c.Inconclusive("no quiescence after the late released()")
		return
	}
	mu.Lock()
	nAfter := calls
	mu.Unlock()
	if k := rels[cur].Load(); k != 0 || nAfter != nBefore || last2.Load() != int64(100+cur) {
		c.Violate("release", "refcount-result-dropped-without-cause", "the first result went away (%s) and result %d is current and held; a late released() of the FIRST result then released the current one %d time(s), caused %d new resolver call(s) and left the holder told %d (want 0, 0, %d)",
			[]string{"last reference released", "SetContext(new)", "ClearContext + SetContext"}[how], 100+cur, k, nAfter-nBefore, last2.Load(), 100+cur)
	}
	if how != 0 {
		ref1.Release()
	}
	ref2.Release()
	rc.ClearContext()
	if !mon.Quiesce(5 * time.Second) {
		c.Inconclusive("no quiescence at the end")
		return
	}
	mu.Lock()
	nEnd := calls
	mu.Unlock()
	for i := 0; i < nEnd && i < len(rels); i++ {
		if k := rels[i].Load(); k != 1 {
			c.Violate("release", "refcount-release-count-final", "stale-released template: the release function of result %d has run %d times after everything was released and cleared, want once", 100+i, k)
		}
	}
}

// rfOptionCombinationsCase: the value container and the error container are independent options. Each of the four
// combinations delivers a value result and an error result to whatever containers exist (and to the reference callback).
func rfOptionCombinationsCase(c *mon.Case) {
	r := c.Rng
	withTarget, withErr := r.IntN(2) == 0, r.IntN(2) == 0
	failFirst := r.IntN(2) == 0
	errTok := fmt.Errorf("resolve-error (option combination case)")
	var mu sync.Mutex
	calls := 0
	var releasedFns []func()
	resolver := func(ctx context.Context, released func()) (int, func(), error) {
		mu.Lock()
		n := calls
		calls++
		releasedFns = append(releasedFns, released)
		mu.Unlock()
		if (n == 0) == failFirst {
			return 0, nil, errTok
		}
		return 100 + n, func() {}, nil
	}
	var target *ccontainer.CContainer[int]
	var targetErr *ccontainer.CContainer[*error]
	if withTarget {
		target = ccontainer.NewCContainer[int](0)
	}
	if withErr {
		targetErr = ccontainer.NewCContainer[*error](nil)
	}
	ctx, cancel := context.WithCancel(context.Background())
	defer cancel()
	rc := refcount.NewRefCount[int](ctx, false, target, targetErr, resolver)
	var lastVal atomic.Int64
	var lastErr atomic.Pointer[error]
	ref := rc.AddRef(func(resolved bool, v int, err error) {
		if resolved {
			lastVal.Store(int64(v))
			if err != nil {
				lastErr.Store(&err)
			} else {
				lastErr.Store(nil)
			}
		} else {
			lastVal.Store(-1)
			lastErr.Store(nil)
		}
	})
	defer ref.Release()
	judge := func(round int) bool {
		if !mon.Quiesce(5 * time.Second) {
			c.Inconclusive("no quiescence")
			return false
		}
		mu.Lock()
		n := calls - 1
		mu.Unlock()
		isErr := (n == 0) == failFirst
		what := fmt.Sprintf("round %d (value container: %v, error container: %v)", round, withTarget, withErr)
		if isErr {
			if pe := lastErr.Load(); pe == nil || *pe != errTok {
				c.Violate("resolver", "refcount-reference-not-told", "%s: the resolver returned an error; the reference callback was last told val %d err %v", what, lastVal.Load(), pe)
				return false
			}
			if withErr {
				if pe := targetErr.GetValue(); pe == nil || *pe != errTok {
					c.Violate("resolver", "refcount-target-error-not-updated", "%s: the resolver returned an error but the error container holds %v", what, pe)
					return false
				}
			}
			if withTarget && target.GetValue() != 0 {
				c.Violate("resolver", "refcount-target-not-updated", "%s: the resolver returned an error but the value container holds %d", what, target.GetValue())
				return false
			}
		} else {
			if lastVal.Load() != int64(100+n) || lastErr.Load() != nil {
				c.Violate("resolver", "refcount-reference-not-told", "%s: the resolver returned %d; the reference callback was last told val %d err %v", what, 100+n, lastVal.Load(), lastErr.Load())
				return false
			}
			if withTarget && target.GetValue() != 100+n {
				c.Violate("resolver", "refcount-target-not-updated", "%s: the resolver returned %d but the value container holds %d", what, 100+n, target.GetValue())
				return false
			}
			if withErr && targetErr.GetValue() != nil {
				c.Violate("resolver", "refcount-stale-error-in-error-container", "%s: the newest result is a value, yet the error container still holds %v", what, *targetErr.GetValue())
				return false
			}
		}
		return true
	}
	c.Count("option_combination_templates", 1)
	c.NonTrivial()
	c.Mix(uint64(map[bool]int{true: 1}[withTarget])<<2 | uint64(map[bool]int{true: 1}[withErr])<<1 | uint64(map[bool]int{true: 1}[failFirst]))
	if !judge(0) {
		return
	}
	// invalidate: the other kind of result follows
	mu.Lock()
	f := releasedFns[len(releasedFns)-1]
	mu.Unlock()
	f()
	if !judge(1) {
		return
	}
	rc.ClearContext()
}

// rfPromiseRefCase: AddRefPromise hands out a promise that follows the RefCount's value. Once the value was invalidated
// (its release function has run) the promise no longer yields it: a later Await waits for the next value.
func rfPromiseRefCase(c *mon.Case) {
	r := c.Rng
	how := r.IntN(3) // 0 released(), 1 SetContext(new), 2 ClearContext (no next value at all)
	gate := make(chan struct{})
	var mu sync.Mutex
	var releasedFns []func()
	var rels [4]atomic.Int64
	calls := 0
	resolver := func(ctx context.Context, released func()) (int, func(), error) {
		mu.Lock()
		n := calls
		calls++
		releasedFns = append(releasedFns, released)
		mu.Unlock()
		if n >= 1 {
			select {
			case <-gate:
			case <-ctx.Done():
				return 0, nil, context.Canceled
			}
		}
		if n >= len(rels) {
			return 0, nil, fmt.Errorf("too many resolver calls")
		}
		return 100 + n, func() { rels[n].Add(1) }, nil
	}
	rc := refcount.NewRefCount[int](nil, false, nil, nil, resolver)
	ctx1, cancel1 := context.WithCancel(context.Background())
	defer cancel1()
	rc.SetContext(ctx1)
	prom, ref := rc.AddRefPromise()
	v1, err1 := prom.Await(context.Background())
	if err1 != nil || v1 != 100 {
		c.Violate("consumer", "refcount-consumer-foreign-value", "the promise of AddRefPromise yielded (%d, %v), the resolver resolved to 100", v1, err1)
		return
	}
	ctx2, cancel2 := context.WithCancel(context.Background())
	defer cancel2()
	switch how {
	case 0:
		mu.Lock()
		f := releasedFns[0]
		mu.Unlock()
		f()
	case 1:
		rc.SetContext(ctx2)
	default:
		rc.ClearContext()
	}
	if !mon.Quiesce(5 * time.Second) {
		c.Inconclusive("no quiescence after the invalidation")
		return
	}
	if rels[0].Load() != 1 {
		c.Violate("release", "refcount-value-not-released", "the first value was invalidated (%d: 0 released(), 1 SetContext, 2 ClearContext) but its release function has run %d times at quiescence", how, rels[0].Load())
		return
	}
	// the first value is released; the next one is not there yet (the resolver is parked / there is no context)
	var v2 int
	var err2 error
	var done atomic.Bool
	actx, acancel := context.WithCancel(context.Background())
	defer acancel()
	c.Go("awaiter", func() {
		v2, err2 = prom.Await(actx)
		done.Store(true)
	})
	c.Count("promise_reference_templates", 1)
	c.NonTrivial()
	c.Mix(uint64(how))
	if !mon.Quiesce(5 * time.Second) {
		c.Inconclusive("no quiescence")
		return
	}
	if done.Load() && err2 == nil && v2 == 100 {
		c.Violate("consumer", "refcount-consumer-got-released-value", "the value 100 was invalidated and its release function has run; a later Await on the promise of AddRefPromise still returned 100 although no new value exists yet")
		return
	}
	if how != 2 {
		close(gate)
		if !mon.Quiesce(5 * time.Second) {
			c.Inconclusive("no quiescence after the next value")
			return
		}
		if !done.Load() || err2 != nil || v2 != 101 {
			c.Violate("consumer", "refcount-consumer-blocked-with-result", "after the next value (101) resolved, the Await on the promise of AddRefPromise has returned=%v (%d, %v)", done.Load(), v2, err2)
		}
	}
	acancel()
	ref.Release()
	rc.ClearContext()
	c.WaitActors(5 * time.Second)
}
