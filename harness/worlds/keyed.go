package worlds

import (
	"context"
	"fmt"
	"math/rand/v2"
	"runtime"
	"sort"
	"sync"
	"sync/atomic"
	"time"

	cbackoff "github.com/cenkalti/backoff/v4"

	ubackoff "github.com/aperturerobotics/util/backoff"

	"github.com/aperturerobotics/util/keyed"
	"github.com/aperturerobotics/util/verifhook"

	"verifharness/mon"
)

func init() {
	kAssume := append([]string{
		"release delay is 30 ms; an operation is judged as 'before expiry' only if it returned within delay/2 of the moment before RemoveKey was called (else the history is dropped as inconclusive), and as 'after expiry' only after sleeping 3 delays followed by goroutine-state quiescence",
		"routine functions are harness closures stamping entry/return; retry uses a 1 ms constant backoff and 'surely retried' = 30 periods + quiescence, repeated until the instance count is stable",
	}, commonAssumptions...)
	Registry["C06"] = Spec{
		Run: runC06, Workers: 16, GOMAXPROCS: 4,
		QuickTimeout: 8 * time.Minute, ThoroughTimeout: 40 * time.Minute,
		QuickFloor: 200, ThoroughFloor: 4000,
		RequiredCounters: []string{"calls_compared", "keyset_comparisons", "rerequest_during_pending_removal", "late_expiry_checks", "double_releases", "sync_add_and_remove", "gated_removal_timer_templates", "concurrent_ref_cases", "concurrent_setkey_cases", "nil_routine_constructions"},
		Rule: "each case is a sequential history of 15-60 calls (SetKey, RemoveKey, SyncKeys with duplicates, GetKey, AddKeyRef, Release incl. double release, KeyedRefCount.RemoveKey) on a Keyed or KeyedRefCount over 1-6 keys, with and without a 30 ms release delay, routines that run until cancelled / fail at once / succeed at once, with and without a context; " +
			"a reference model (key -> construction id, pending removal, failed) is stepped beside it and every return value and the key set after every call are compared; gated templates hold the removal-timer callback before the mutex while the key is re-requested; concurrent cases race the last Release with AddKeyRef and judge at quiescence; " +
			"non-trivial = the history contains a re-request during a pending removal, a double release, or a SyncKeys that both adds and removes; distinct = distinct call/result sequences",
		Assumptions: kAssume,
	}
	Registry["C07"] = Spec{
		Run: runC07, Workers: 16, GOMAXPROCS: 4,
		QuickTimeout: 8 * time.Minute, ThoroughTimeout: 40 * time.Minute,
		QuickFloor: 200, ThoroughFloor: 4000,
		RequiredCounters: []string{"instances_entered", "supersessions_while_exiting", "removal_claims_checked", "retry_obligations_checked", "calls_while_retry_pending", "gated_timer_templates", "delayed_removal_expiry_checks", "keyedrefcount_live_instances_seen", "KeyedExecStart", "KeyedTimer"},
		Rule: "each case drives one Keyed over 1-4 keys through bursts of SetKey(start on/off)/RemoveKey/SyncKeys/RestartRoutine/ResetRoutine/RestartAll/ResetAll/SetContext/ClearContext while routines take a seeded time to return after cancellation, fail (1 ms retry backoff) or succeed; " +
			"per key and membership epoch an active counter is asserted at every entry; after RemoveKey/ClearContext return (or a delayed removal has surely fired) no instance of that epoch may be live or start; a failed routine of a key that stays in the set must be entered again by the settle point whatever non-restarting calls happened; " +
			"gated templates hold a fired retry-timer callback while the routine is restarted; non-trivial = two or more supersessions of one key inside one exit latency, or a call on a key while its retry timer was pending; distinct = distinct event orders",
		Assumptions: kAssume,
	}
}

const kDelay = 30 * time.Millisecond

// ---------------------------------------------------------------- C06

type kmKey struct {
	ctor     int
	pending  bool
	tBefore  time.Time // before RemoveKey was called
	tAfter   time.Time // after it returned
	outcome  int       // 0 until cancelled, 1 fails at once, 2 succeeds at once, 3 nil routine (nothing runs)
	started  bool      // the routine was started at least once under a context
	failedOK bool      // the routine has certainly failed (exit callback seen)
}

func runC06(w *mon.Worker) {
	for i := 0; i < w.Share(w.Scale(8000, 200000)); i++ {
		refc := i%3 == 0
		w.Case("model-nodelay", map[string]any{"refcount": refc}, func(c *mon.Case) { c06ModelCase(c, refc, false) })
	}
	for i := 0; i < w.Share(w.Scale(320, 8000)); i++ {
		refc := i%2 == 0
		w.Case("model-delay", map[string]any{"refcount": refc}, func(c *mon.Case) { c06ModelCase(c, refc, true) })
	}
	for i := 0; i < w.Share(w.Scale(192, 5000)); i++ {
		w.Case("gated-removal-timer", nil, c06GatedTimerCase)
	}
	mon.SetMaxSleep(80 * time.Microsecond)
	mon.SetProb(0.25, verifhook.KeyedLock)
	for i := 0; i < w.Share(w.Scale(1600, 40000)); i++ {
		w.Case("concurrent-refs", nil, c06ConcurrentRefCase)
	}
	for i := 0; i < w.Share(w.Scale(1600, 40000)); i++ {
		w.Case("concurrent-setkey", nil, c06ConcurrentSetKeyCase)
	}
	for i := 0; i < w.Share(w.Scale(320, 8000)); i++ {
		w.Case("sync-after-panic", nil, c06SyncAfterPanicCase)
	}
	mon.ClearProb()
}

// c06ConcurrentSetKeyCase: several goroutines request the same absent key at once while the constructor is slow.
// Exactly one call reports the key as new, the constructor runs once, everybody sees the same data, and after
// RemoveKey nothing of that key keeps running.
func c06ConcurrentSetKeyCase(c *mon.Case) {
	r := c.Rng
	var ctors, live atomic.Int64
	slow := r.IntN(3)
	sleepFor := time.Duration(10+r.IntN(40)) * time.Microsecond
	ctor := func(key string) (keyed.Routine, int) {
		id := int(ctors.Add(1))
		switch slow {
		case 1:
			for i := 0; i < 5; i++ {
				runtime.Gosched()
			}
		case 2:
			time.Sleep(sleepFor)
		}
		return func(ctx context.Context) error {
			live.Add(1)
			<-ctx.Done()
			live.Add(-1)
			return context.Canceled
		}, id
	}
	k := keyed.NewKeyed(ctor)
	ctx, cancel := context.WithCancel(context.Background())
	defer cancel()
	k.SetContext(ctx, false)
	n := 2 + r.IntN(5)
	type res struct {
		data    int
		existed bool
		sync    bool
	}
	out := make([]res, n)
	start := make(chan struct{})
	for i := 0; i < n; i++ {
		i := i
		useSync := r.IntN(4) == 0
		c.Go(fmt.Sprint("s", i), func() {
			<-start
			if useSync {
				added, _ := k.SyncKeys([]string{"a"}, true)
				d, _ := k.GetKey("a")
				out[i] = res{data: d, existed: len(added) == 0, sync: true}
				return
			}
			d, ex := k.SetKey("a", true)
			out[i] = res{data: d, existed: ex}
		})
	}
	close(start)
	if !c.WaitActors(10 * time.Second) {
		c.Inconclusive("callers did not finish")
		return
	}
	c.Count("concurrent_setkey_cases", 1)
	c.NonTrivial()
	c.Mix(uint64(n)<<2 | uint64(slow))
	fresh := 0
	for _, o := range out {
		if !o.existed {
			fresh++
		}
	}
	cur, _ := k.GetKey("a")
	if fresh != 1 || ctors.Load() != 1 {
		c.Violate("model", "setkey-existed", "%d concurrent SetKey/SyncKeys calls for the same absent key: %d of them reported the key as new and the constructor ran %d times (want 1 and 1); results %+v", n, fresh, ctors.Load(), out)
	}
	for _, o := range out {
		if o.data != cur {
			c.Violate("model", "data-mismatch", "a concurrent SetKey returned data %d, the key carries %d; results %+v", o.data, cur, out)
			break
		}
	}
	k.RemoveKey("a")
	if !mon.Quiesce(5 * time.Second) {
		c.Inconclusive("no quiescence")
		return
	}
	if l := live.Load(); l != 0 {
		c.Violate("model", "routine-of-removed-key-running", "after RemoveKey(a) %d routine instance(s) constructed for the key are still running at quiescence", l)
	}
}

type c06World struct {
	c       *mon.Case
	k       *keyed.Keyed[string, int]
	rc      *keyed.KeyedRefCount[string, int]
	ctorSeq atomic.Int64
	outcome func(key string, ctor int) int
	mu      sync.Mutex
	ctorOf  map[int]string
	exits   map[int]int // ctor id -> exit callbacks seen
}

func (w *c06World) ctorCb(key string) (keyed.Routine, int) {
	id := int(w.ctorSeq.Add(1))
	oc := w.outcome(key, id)
	w.mu.Lock()
	w.ctorOf[id] = key
	w.mu.Unlock()
	if oc == 3 {
		w.c.Count("nil_routine_constructions", 1)
		return nil, id
	}
	return func(ctx context.Context) error {
		switch oc {
		case 1:
			return fmt.Errorf("routine-%d-failed", id)
		case 2:
			return nil
		}
		<-ctx.Done()
		return context.Canceled
	}, id
}

func newC06World(c *mon.Case, refc bool, delay time.Duration, outcome func(string, int) int) *c06World {
	w := &c06World{c: c, outcome: outcome, ctorOf: map[int]string{}, exits: map[int]int{}}
	opts := []keyed.Option[string, int]{keyed.WithExitCb(func(key string, _ keyed.Routine, data int, err error) {
		w.mu.Lock()
		w.exits[data]++
		w.mu.Unlock()
	})}
	if delay != 0 {
		if c.Index%5 == 4 {
			// WithReleaseDelay takes the magnitude of a negative duration
			opts = append(opts, keyed.WithReleaseDelay[string, int](-delay))
			c.Count("negative_release_delay_cases", 1)
		} else {
			opts = append(opts, keyed.WithReleaseDelay[string, int](delay))
		}
	}
	if refc {
		if c.Index%4 == 3 {
			w.rc = keyed.NewKeyedRefCountWithLogger(w.ctorCb, discardLogger(), opts...)
		} else {
			w.rc = keyed.NewKeyedRefCount(w.ctorCb, opts...)
		}
	} else {
		if c.Index%4 == 3 {
			w.k = keyed.NewKeyedWithLogger(w.ctorCb, discardLogger(), opts...)
		} else {
			w.k = keyed.NewKeyed(w.ctorCb, opts...)
		}
	}
	return w
}

func (w *c06World) getKeys() []string {
	var ks []string
	if w.rc != nil {
		ks = w.rc.GetKeys()
	} else {
		ks = w.k.GetKeys()
	}
	sort.Strings(ks)
	return ks
}

func (w *c06World) getKey(key string) (int, bool) {
	if w.rc != nil {
		return w.rc.GetKey(key)
	}
	return w.k.GetKey(key)
}

func (w *c06World) getKeysWithData() map[string]int {
	m := map[string]int{}
	if w.rc != nil {
		for _, kd := range w.rc.GetKeysWithData() {
			m[kd.Key] = kd.Data
		}
	} else {
		for _, kd := range w.k.GetKeysWithData() {
			m[kd.Key] = kd.Data
		}
	}
	return m
}

func c06ModelCase(c *mon.Case, refc, withDelay bool) {
	r := c.Rng
	nKeys := 1 + r.IntN(6)
	keys := make([]string, nKeys)
	for i := range keys {
		keys[i] = fmt.Sprint("k", i)
	}
	delay := time.Duration(0)
	if withDelay {
		delay = kDelay
	}
	outSeed := r.Uint64()
	w := newC06World(c, refc, delay, func(key string, ctor int) int {
		// 0,1,2,0 and 3: the constructor returns a nil routine (documented: nothing is run, the key is managed all the same)
		x := int(mon.SubSeed(outSeed, key, uint64(ctor)) % 5)
		if x == 4 {
			return 3
		}
		return x % 3
	})
	hasCtx := r.IntN(3) != 0
	ctx, cancel := context.WithCancel(context.Background())
	defer cancel()
	if hasCtx {
		if w.rc != nil {
			w.rc.SetContext(ctx, false)
		} else {
			w.k.SetContext(ctx, false)
		}
	}
	model := map[string]*kmKey{}
	type refRec struct {
		ref   *keyed.KeyedRef[string, int]
		key   string
		alive bool
	}
	var refs []*refRec
	liveRefs := func(key string) (n int) {
		for _, rf := range refs {
			if rf.alive && rf.key == key {
				n++
			}
		}
		return
	}
	var log []string
	fail := func(sig, format string, args ...any) {
		c.Violate("model", sig, format+" | history: %v", append(args, log)...)
	}
	// quiesce keeps the model's idea of 'failed' exact: after it every started routine that fails at once has failed
	settle := func() bool {
		if !mon.Quiesce(10 * time.Second) {
			c.Inconclusive("no quiescence")
			return false
		}
		w.mu.Lock()
		for _, mk := range model {
			if mk.started && mk.outcome == 1 && w.exits[mk.ctor] > 0 {
				mk.failedOK = true
			}
		}
		w.mu.Unlock()
		return true
	}
	// model steps
	// nextID is sampled before a call: the constructor hands out consecutive ids
	nextID := 0
	mSet := func(key string, start bool) (existed bool, mk *kmKey) {
		mk, existed = model[key]
		if !existed {
			id := nextID
			nextID++
			mk = &kmKey{ctor: id, outcome: w.outcome(key, id)}
			model[key] = mk
		}
		mk.pending = false
		if (!existed || start) && hasCtx {
			if !mk.started || mk.outcome == 1 {
				// (re)started: a failing routine fails again
				mk.started = true
			}
		}
		return
	}
	mRemove := func(key string, tBefore, tAfter time.Time) (existed bool) {
		mk, ok := model[key]
		if !ok {
			return false
		}
		if mk.pending {
			return true
		}
		if delay == 0 || mk.failedOK {
			delete(model, key)
			return true
		}
		mk.pending, mk.tBefore, mk.tAfter = true, tBefore, tAfter
		return true
	}
	// early reports whether 'now' (taken after an observing call returned) is surely before the expiry of key's pending removal
	early := func(mk *kmKey) bool { return time.Since(mk.tBefore) < delay/2 }
	compareKeys := func(when string) bool {
		c.Count("keyset_comparisons", 1)
		got := w.getKeysWithData()
		for _, k := range keys {
			mk, inModel := model[k]
			d, inImpl := got[k]
			switch {
			case inModel && mk.pending:
				if !early(mk) {
					// cannot know whether the timer fired: drop the history
					c.Inconclusive("key set sampled near a removal deadline")
					return false
				}
				if !inImpl {
					fail("key-removed-before-delay", "%s: key %s was removed %v after RemoveKey although the release delay is %v and its routine has not failed", when, k, time.Since(mk.tBefore), delay)
					return false
				}
			case inModel != inImpl:
				fail("keyset-mismatch", "%s: key %s present=%v in the implementation, present=%v in the model (GetKeysWithData=%v)", when, k, inImpl, inModel, got)
				return false
			}
			if inModel && inImpl && d != mk.ctor {
				fail("data-mismatch", "%s: key %s carries data %d, the present construction is %d", when, k, d, mk.ctor)
				return false
			}
		}
		if len(got) > len(model) {
			fail("keyset-mismatch", "%s: implementation holds %v, model %d keys", when, got, len(model))
			return false
		}
		return true
	}
	// lateSettle waits until every pending removal has surely fired and applies it to the model
	lateSettle := func() bool {
		anyPending := false
		for _, mk := range model {
			if mk.pending {
				anyPending = true
			}
		}
		if !anyPending {
			return true
		}
		if !mon.SettleTimers(delay, 3, 3*delay, 10*time.Second) {
			c.Inconclusive("no quiescence after the delay")
			return false
		}
		for k, mk := range model {
			if mk.pending {
				if time.Since(mk.tAfter) < 2*delay {
					c.Inconclusive("late settle too short")
					return false
				}
				delete(model, k)
				c.Count("late_expiry_checks", 1)
			}
		}
		return compareKeys("after the release delay expired")
	}

	nOps := 15 + r.IntN(46)
	if withDelay {
		nOps = 10 + r.IntN(20)
	}
	for i := 0; i < nOps && !c.Violated(); i++ {
		key := keys[r.IntN(nKeys)]
		// with a delay: sometimes let pending removals expire first
		if withDelay && r.IntN(5) == 0 {
			if !lateSettle() {
				return
			}
		}
		pendingBefore := false
		if mk, ok := model[key]; ok && mk.pending {
			pendingBefore = true
		}
		nextID = int(w.ctorSeq.Load()) + 1
		guardOK := func() bool {
			// the call must have happened surely before the expiry of every pending removal it depends on
			for _, mk := range model {
				if mk.pending && !early(mk) {
					c.Inconclusive("call too close to a removal deadline")
					return false
				}
			}
			return true
		}
		switch k := r.IntN(12); {
		case k < 3 && !refc:
			start := r.IntN(2) == 0
			_, existedModel := model[key]
			data, existed := w.k.SetKey(key, start)
			if !guardOK() {
				return
			}
			me, mk := mSet(key, start)
			log = append(log, fmt.Sprintf("SetKey(%s,%v)=(%d,%v)", key, start, data, existed))
			c.Count("calls_compared", 1)
			if existed != me || existed != existedModel {
				fail("setkey-existed", "SetKey(%s) returned existed=%v, the model says %v", key, existed, me)
				return
			}
			if data != mk.ctor {
				fail("data-mismatch", "SetKey(%s) returned data %d, the present construction is %d", key, data, mk.ctor)
				return
			}
			if pendingBefore {
				c.Count("rerequest_during_pending_removal", 1)
				c.NonTrivial()
			}
		case k < 5 && !refc:
			tb := time.Now()
			existed := w.k.RemoveKey(key)
			ta := time.Now()
			if !guardOK() {
				return
			}
			me := mRemove(key, tb, ta)
			log = append(log, fmt.Sprintf("RemoveKey(%s)=%v", key, existed))
			c.Count("calls_compared", 1)
			if existed != me {
				fail("removekey-existed", "RemoveKey(%s) returned %v, the model says %v", key, existed, me)
				return
			}
		case k < 7 && !refc:
			// SyncKeys with duplicates
			n := r.IntN(nKeys + 2)
			list := make([]string, n)
			for j := range list {
				list[j] = keys[r.IntN(nKeys)]
			}
			restart := r.IntN(2) == 0
			// expected
			var wantAdded []string
			seen := map[string]bool{}
			anyPendingListed := false
			for _, kk := range list {
				if seen[kk] {
					continue
				}
				seen[kk] = true
				if mk, ok := model[kk]; ok {
					if mk.pending {
						anyPendingListed = true
					}
				} else {
					wantAdded = append(wantAdded, kk)
				}
			}
			wantRemoved := map[string]bool{}
			for kk := range model {
				if !seen[kk] {
					wantRemoved[kk] = true
				}
			}
			tb := time.Now()
			added, removed := w.k.SyncKeys(list, restart)
			ta := time.Now()
			if !guardOK() {
				return
			}
			done := map[string]bool{}
			for _, kk := range list {
				if !done[kk] {
					done[kk] = true
					mSet(kk, restart)
				}
			}
			for kk := range wantRemoved {
				mRemove(kk, tb, ta)
			}
			log = append(log, fmt.Sprintf("SyncKeys(%v,%v)=(+%v,-%v)", list, restart, added, removed))
			c.Count("calls_compared", 1)
			if fmt.Sprint(added) != fmt.Sprint(wantAdded) {
				fail("synckeys-added", "SyncKeys(%v) returned added=%v, the model says %v (first-occurrence order)", list, added, wantAdded)
				return
			}
			gotRemoved := map[string]bool{}
			for _, kk := range removed {
				if gotRemoved[kk] {
					fail("synckeys-removed", "SyncKeys(%v) lists %s twice in removed=%v", list, kk, removed)
					return
				}
				gotRemoved[kk] = true
			}
			if len(gotRemoved) != len(wantRemoved) {
				fail("synckeys-removed", "SyncKeys(%v) returned removed=%v, the model says %v", list, removed, wantRemoved)
				return
			}
			for kk := range wantRemoved {
				if !gotRemoved[kk] {
					fail("synckeys-removed", "SyncKeys(%v) returned removed=%v, the model says %v", list, removed, wantRemoved)
					return
				}
			}
			if len(wantAdded) > 0 && len(wantRemoved) > 0 {
				c.Count("sync_add_and_remove", 1)
				c.NonTrivial()
			}
			if anyPendingListed {
				c.Count("rerequest_during_pending_removal", 1)
				c.NonTrivial()
			}
		case k < 8:
			data, existed := w.getKey(key)
			if !guardOK() {
				return
			}
			mk, me := model[key]
			log = append(log, fmt.Sprintf("GetKey(%s)=(%d,%v)", key, data, existed))
			c.Count("calls_compared", 1)
			if existed != me || (me && data != mk.ctor) || (!me && data != 0) {
				fail("getkey", "GetKey(%s) returned (%d,%v), the model says present=%v", key, data, existed, me)
				return
			}
		case k < 10 && refc:
			_, existedModel := model[key]
			ref, data, existed := w.rc.AddKeyRef(key)
			if !guardOK() {
				return
			}
			_, mk := mSet(key, true)
			refs = append(refs, &refRec{ref: ref, key: key, alive: true})
			log = append(log, fmt.Sprintf("AddKeyRef(%s)=(%d,%v)", key, data, existed))
			c.Count("calls_compared", 1)
			if existed != existedModel || data != mk.ctor {
				fail("addkeyref", "AddKeyRef(%s) returned (data %d, existed %v), the model says (construction %d, existed %v)", key, data, existed, mk.ctor, existedModel)
				return
			}
			if pendingBefore {
				c.Count("rerequest_during_pending_removal", 1)
				c.NonTrivial()
			}
		case k < 11 && refc && len(refs) > 0:
			rf := refs[r.IntN(len(refs))]
			tb := time.Now()
			rf.ref.Release()
			ta := time.Now()
			if !guardOK() {
				return
			}
			if rf.alive {
				rf.alive = false
				if liveRefs(rf.key) == 0 {
					mRemove(rf.key, tb, ta)
				}
				log = append(log, fmt.Sprintf("Release(ref of %s)", rf.key))
			} else {
				c.Count("double_releases", 1)
				c.NonTrivial()
				log = append(log, fmt.Sprintf("Release again(ref of %s)", rf.key))
			}
			c.Count("calls_compared", 1)
		case refc:
			tb := time.Now()
			existed := w.rc.RemoveKey(key)
			ta := time.Now()
			if !guardOK() {
				return
			}
			for _, rf := range refs {
				if rf.key == key {
					rf.alive = false
				}
			}
			me := mRemove(key, tb, ta)
			log = append(log, fmt.Sprintf("RefCount.RemoveKey(%s)=%v", key, existed))
			c.Count("calls_compared", 1)
			if existed != me {
				fail("removekey-existed", "KeyedRefCount.RemoveKey(%s) returned %v, the model says %v", key, existed, me)
				return
			}
		case k == 11 && r.IntN(3) == 0:
			// ResetRoutine / RestartRoutine never change the key set; a reset constructs anew and starts the delay of a
			// pending removal again, a restart leaves a pending removal as it is
			reset := r.IntN(2) == 0
			mk, me := model[key]
			tB := time.Now()
			var existed, did bool
			switch {
			case reset && w.rc != nil:
				existed, did = w.rc.ResetRoutine(key)
			case reset:
				existed, did = w.k.ResetRoutine(key)
			case w.rc != nil:
				existed, did = w.rc.RestartRoutine(key)
			default:
				existed, did = w.k.RestartRoutine(key)
			}
			tA := time.Now()
			if !guardOK() {
				return
			}
			what := map[bool]string{true: "ResetRoutine", false: "RestartRoutine"}[reset]
			log = append(log, fmt.Sprintf("%s(%s)=(%v,%v)", what, key, existed, did))
			c.Count("calls_compared", 1)
			c.Count("reset_restart_calls_in_model", 1)
			if wantDid := me && (reset || hasCtx); existed != me || did != wantDid {
				fail("reset-restart-result", "%s(%s) returned (existed %v, done %v), the model says (%v, %v)", what, key, existed, did, me, wantDid)
				return
			}
			if me && reset {
				mk.ctor, mk.outcome, mk.started, mk.failedOK = nextID, w.outcome(key, nextID), hasCtx, false
				if mk.pending {
					mk.tBefore, mk.tAfter = tB, tA
				}
			} else if me && hasCtx {
				mk.started = true
			}
		case k == 11 && r.IntN(2) == 0:
			// context calls never change the key set, pending delayed removals included
			if hasCtx && r.IntN(2) == 0 {
				if w.rc != nil {
					w.rc.ClearContext()
				} else {
					w.k.ClearContext()
				}
				hasCtx = false
				log = append(log, "ClearContext")
			} else {
				if w.rc != nil {
					w.rc.SetContext(ctx, false)
				} else {
					w.k.SetContext(ctx, false)
				}
				hasCtx = true
				for _, mk := range model {
					mk.started = true
				}
				log = append(log, "SetContext")
			}
			if !guardOK() {
				return
			}
			c.Count("context_calls_in_model", 1)
		default:
			continue
		}
		if !settle() || !compareKeys("after "+log[len(log)-1]) {
			return
		}
	}
	if !lateSettle() {
		return
	}
	c.Mix(mon.HashBytes([]byte(fmt.Sprint(log))))
	c.Rec("driver", "history", log)
}

// c06GatedTimerCase: the delayed-removal timer has fired and its callback is held before the mutex
// while the key is requested again: the key must be kept.
func c06GatedTimerCase(c *mon.Case) {
	r := c.Rng
	refc := r.IntN(2) == 0
	const gatedDelay = 20 * time.Millisecond
	w := newC06World(c, refc, gatedDelay, func(string, int) int { return 0 })
	ctx, cancel := context.WithCancel(context.Background())
	defer cancel()
	var ref *keyed.KeyedRef[string, int]
	var obj any
	if refc {
		w.rc.SetContext(ctx, false)
		ref, _, _ = w.rc.AddKeyRef("a")
	} else {
		w.k.SetContext(ctx, false)
		w.k.SetKey("a", true)
		obj = w.k
	}
	var g *mon.Gate
	if refc {
		// aim at the inner Keyed of this KeyedRefCount (timers of other, finished cases must not be mistaken for ours)
		ptr := mon.FieldPtr(w.rc, "keyed")
		if ptr == 0 {
			c.Inconclusive("cannot locate the inner Keyed")
			return
		}
		g = mon.NewGatePtr(verifhook.KeyedTimer, ptr, 1)
	} else {
		g = mon.NewGate(verifhook.KeyedTimer, obj, 1)
	}
	if refc {
		ref.Release()
	} else {
		w.k.RemoveKey("a")
	}
	if !g.WaitArrived(5 * time.Second) {
		g.Release()
		c.Inconclusive("removal timer never fired")
		return
	}
	how := ""
	switch v := r.IntN(3); {
	case refc:
		how = "AddKeyRef"
		_, data, existed := w.rc.AddKeyRef("a")
		if !existed || data != 1 {
			c.Violate("model", "addkeyref", "AddKeyRef during the pending removal returned (data %d, existed %v), want (1, true)", data, existed)
		}
	case v == 0:
		how = "SetKey(start=false)"
		w.k.SetKey("a", false)
	case v == 1:
		how = "SetKey(start=true)"
		w.k.SetKey("a", true)
	default:
		how = "SyncKeys"
		w.k.SyncKeys([]string{"a"}, false)
	}
	c.Rec("driver", "re-requested by "+how+" while the removal-timer callback is parked before the mutex", nil)
	// variant: the key is removed again right away; the parked callback of the FIRST removal must not
	// carry out the second one early (the key stays until the fresh delay expires)
	reRemove := r.IntN(2) == 0
	var tb2 time.Time
	if reRemove {
		tb2 = time.Now()
		if refc {
			// drop every live reference again
			w.rc.RemoveKey("a")
			how += " + RemoveKey"
		} else {
			w.k.RemoveKey("a")
			how += " + RemoveKey"
		}
	}
	g.Release()
	if reRemove {
		// let the released callback run, then look while the fresh delay surely has not expired
		runtime.Gosched()
		mon.Quiesce(time.Second)
		_, present := w.getKey("a")
		if time.Since(tb2) < gatedDelay/2 {
			c.Count("gated_removal_timer_templates", 1)
			c.NonTrivial()
			c.Mix(mon.HashBytes([]byte(how)))
			if !present {
				c.Violate("model", "key-removed-before-fresh-delay", "the key was re-requested (%s) and removed again while the callback of the FIRST removal timer was parked; after that callback ran the key is gone %v after the second RemoveKey although the release delay is %v", how, time.Since(tb2), gatedDelay)
			}
		} else {
			c.Inconclusive("too slow to judge the fresh delay")
		}
		return
	}
	c.Count("gated_removal_timer_templates", 1)
	c.NonTrivial()
	c.Mix(mon.HashBytes([]byte(how)))
	if !mon.SettleTimers(gatedDelay, 3, 3*gatedDelay, 5*time.Second) || g.TimedOut.Load() {
		c.Inconclusive("no quiescence")
		return
	}
	if ks := w.getKeys(); len(ks) != 1 {
		c.Violate("model", "rerequested-key-removed-by-fired-timer", "the key was requested again by %s after its removal timer had fired but before the callback took the mutex; the key is gone afterwards (keys: %v)", how, ks)
	}
}

// c06ConcurrentRefCase races Release of the last reference with AddKeyRef on the same key.
func c06ConcurrentRefCase(c *mon.Case) {
	r := c.Rng
	withDelay := r.IntN(3) == 0
	d := time.Duration(0)
	if withDelay {
		d = 2 * time.Millisecond
	}
	w := newC06World(c, true, d, func(string, int) int { return 0 })
	ctx, cancel := context.WithCancel(context.Background())
	defer cancel()
	w.rc.SetContext(ctx, false)
	nG := 2 + r.IntN(4)
	rounds := 20 + r.IntN(60)
	var held sync.Map // goroutine -> *ref still held at the end
	for g := 0; g < nG; g++ {
		g := g
		seed := r.Uint64()
		c.Go(fmt.Sprint("g", g), func() {
			x := &xorshift{x: seed | 1}
			type heldRef struct {
				ref  *keyed.KeyedRef[string, int]
				data int
			}
			var mine []heldRef
			// while a reference is held the key must be present with the construction it was given
			probe := func(h heldRef, when string) {
				d, ok := w.rc.GetKey("a")
				c.Count("held_reference_probes", 1)
				if !ok {
					c.Violate("model", "key-absent-with-live-reference", "goroutine %d holds an unreleased reference (data %d) but GetKey reports the key absent (%s, delay %v)", g, h.data, when, d)
				} else if d != h.data {
					c.Violate("model", "key-reconstructed-under-live-reference", "goroutine %d holds an unreleased reference given construction %d but the key now carries construction %d (%s)", g, h.data, d, when)
				}
			}
			for i := 0; i < rounds && !c.Violated(); i++ {
				if len(mine) == 0 || x.IntN(2) == 0 {
					ref, data, _ := w.rc.AddKeyRef("a")
					mine = append(mine, heldRef{ref, data})
				} else {
					j := x.IntN(len(mine))
					probe(mine[j], "before releasing it")
					mine[j].ref.Release()
					if x.IntN(4) == 0 {
						mine[j].ref.Release()
					}
					mine = append(mine[:j], mine[j+1:]...)
				}
				if x.IntN(3) == 0 {
					runtime.Gosched()
				}
				if len(mine) > 0 && x.IntN(3) == 0 {
					probe(mine[x.IntN(len(mine))], "while holding it")
				}
			}
			// keep at most one
			for len(mine) > 1 {
				mine[0].ref.Release()
				mine = mine[1:]
			}
			if len(mine) == 1 && g%2 == 1 {
				mine[0].ref.Release()
				mine = nil
			}
			if len(mine) == 1 {
				held.Store(g, mine[0].ref)
			}
		})
	}
	if !c.WaitActors(20 * time.Second) {
		c.Inconclusive("actors did not finish")
		return
	}
	if !mon.SettleTimers(d, 10, 5*time.Millisecond, 5*time.Second) {
		c.Inconclusive("no quiescence")
		return
	}
	c.Count("concurrent_ref_cases", 1)
	nHeld := 0
	held.Range(func(_, _ any) bool { nHeld++; return true })
	c.NonTrivial()
	c.Mix(uint64(nHeld)<<8 | uint64(nG))
	ks := w.getKeys()
	c.Rec("judge", "quiescent", map[string]any{"held": nHeld, "keys": ks})
	if nHeld > 0 && len(ks) != 1 {
		c.Violate("model", "key-absent-with-live-reference", "%d unreleased references to the key exist at quiescence but the key set is %v (delay %v)", nHeld, ks, d)
		return
	}
	if nHeld == 0 && len(ks) != 0 {
		c.Violate("model", "key-present-without-reference", "every reference was released but the key set at quiescence is %v (delay %v)", ks, d)
		return
	}
	// release the rest: the key must go
	held.Range(func(_, v any) bool { v.(*keyed.KeyedRef[string, int]).Release(); return true })
	if !mon.SettleTimers(d, 10, 5*time.Millisecond, 5*time.Second) {
		c.Inconclusive("no quiescence")
		return
	}
	if ks := w.getKeys(); len(ks) != 0 {
		c.Violate("model", "key-present-without-reference", "after releasing the last references the key set at quiescence is %v", ks)
	}
}

var _ = rand.Uint64
var _ cbackoff.BackOff

// ---------------------------------------------------------------- C07

type k7Inst struct {
	n          int
	key        string
	epoch      int
	ctor       int
	ctx        context.Context
	tag        int
	enter      int64
	pre        int64
	exit       atomic.Int64
	err        error
	superseded bool
	liveAtEnt  bool
}

type k7World struct {
	c       *mon.Case
	k       *keyed.Keyed[string, int]
	retry   bool
	delay   time.Duration
	ctorSeq atomic.Int64
	mu      sync.Mutex
	insts   []*k7Inst
	// written by the driver before the calls that construct (under mu)
	epoch   map[string]int
	removed map[string]int64 // key/epoch -> stamp after which no live start is allowed
	ctorKey map[int]string
	behave  func(n int, key string, ctor int) (until bool, lat int, err error)
}

func newK7World(c *mon.Case, retry bool, delay time.Duration, behave func(int, string, int) (bool, int, error)) *k7World {
	w := &k7World{c: c, retry: retry, delay: delay, behave: behave, epoch: map[string]int{}, removed: map[string]int64{}, ctorKey: map[int]string{}}
	var opts []keyed.Option[string, int]
	if retry {
		if c.Index%3 == 1 {
			opts = append(opts, keyed.WithRetry[string, int](&ubackoff.Backoff{BackoffKind: ubackoff.BackoffKind_BackoffKind_CONSTANT, Constant: &ubackoff.Constant{Interval: 1}}))
		} else {
			opts = append(opts, keyed.WithBackoff[string, int](func(string) cbackoff.BackOff { return cbackoff.NewConstantBackOff(rtBackoff) }))
		}
	}
	if delay != 0 {
		opts = append(opts, keyed.WithReleaseDelay[string, int](delay))
	}
	if c.Index%4 == 3 {
		// the logging constructors only add an exit callback that logs
		w.k = keyed.NewKeyedWithLogger(w.ctor, discardLogger(), opts...)
	} else {
		w.k = keyed.NewKeyed(w.ctor, opts...)
	}
	return w
}

func epochKey(key string, epoch int) string { return fmt.Sprint(key, "/", epoch) }

func (w *k7World) ctor(key string) (keyed.Routine, int) {
	id := int(w.ctorSeq.Add(1))
	w.mu.Lock()
	ep := w.epoch[key]
	w.ctorKey[id] = key
	w.mu.Unlock()
	return func(ctx context.Context) error { return w.run(ctx, key, ep, id) }, id
}

func (w *k7World) run(ctx context.Context, key string, epoch, ctor int) error {
	c := w.c
	in := &k7Inst{key: key, epoch: epoch, ctor: ctor, ctx: ctx, tag: -1}
	if t, ok := ctx.Value(rtKey{}).(int); ok {
		in.tag = t
	}
	w.mu.Lock()
	in.n = len(w.insts)
	in.liveAtEnt = ctx.Err() == nil
	in.enter = c.Rec("inst", fmt.Sprintf("enter #%d %s/%d ctor %d tag %d live %v", in.n, key, epoch, ctor, in.tag, in.liveAtEnt), nil)
	others := ""
	for _, o := range w.insts {
		if o.key == key && o.epoch == epoch && o.exit.Load() == 0 {
			others += fmt.Sprintf("#%d(ctor %d, entered %d, ctx cancelled %v) ", o.n, o.ctor, o.enter, o.ctx.Err() != nil)
		}
	}
	w.insts = append(w.insts, in)
	rem := w.removed[epochKey(key, epoch)]
	w.mu.Unlock()
	c.Count("instances_entered", 1)
	if others != "" {
		c.Violate("overlap", "keyed-instances-overlap", "instance #%d of key %s (epoch %d, construction %d) entered while earlier instance(s) of the same key had not returned: %s", in.n, key, epoch, ctor, others)
	}
	if rem != 0 && in.liveAtEnt {
		c.Violate("removal", "keyed-started-after-removal", "instance #%d of key %s (epoch %d) entered at %d with a live context although the key had been removed (RemoveKey/expiry observed at %d)", in.n, key, epoch, in.enter, rem)
	}
	until, lat, err := w.behave(in.n, key, ctor)
	if until {
		<-ctx.Done()
		if err == nil {
			err = context.Canceled
		}
	}
	switch {
	case lat == 1:
		runtime.Gosched()
	case lat > 1:
		time.Sleep(time.Duration(lat) * time.Microsecond)
	}
	in.err = err
	in.pre = c.Stamp()
	in.superseded = ctx.Err() != nil
	in.exit.Store(c.Rec("inst", fmt.Sprintf("exit #%d %s/%d err %v", in.n, key, epoch, err), nil))
	return err
}

func (w *k7World) instances() []*k7Inst {
	w.mu.Lock()
	defer w.mu.Unlock()
	return append([]*k7Inst(nil), w.insts...)
}

func (w *k7World) settle() bool {
	if !w.retry && w.delay == 0 {
		return mon.Quiesce(10 * time.Second)
	}
	prev := -1
	for i := 0; i < 40; i++ {
		d := rtBackoff
		min := 15 * time.Millisecond
		if w.delay > 0 {
			d, min = w.delay, 3*w.delay
		}
		if !mon.SettleTimers(d, 30, min, 10*time.Second) {
			return false
		}
		n := len(w.instances())
		if n == prev {
			return true
		}
		prev = n
	}
	return false
}

func runC07(w *mon.Worker) {
	mon.SetMaxSleep(150 * time.Microsecond)
	for i := 0; i < w.Share(w.Scale(1600, 50000)); i++ {
		mon.SetProb(0.15, verifhook.KeyedLock, verifhook.KeyedExecStart, verifhook.KeyedExecCall, verifhook.KeyedExecDone, verifhook.KeyedTimer)
		retry := i%3 == 0
		w.Case("bursts", map[string]any{"retry": retry}, func(c *mon.Case) { c07BurstCase(c, retry) })
	}
	mon.ClearProb()
	for i := 0; i < w.Share(w.Scale(96, 3000)); i++ {
		w.Case("stale-timer", nil, c07TimerGateCase)
	}
	for i := 0; i < w.Share(w.Scale(64, 2000)); i++ {
		w.Case("delayed-removal", nil, c07DelayedRemovalCase)
	}
	for i := 0; i < w.Share(w.Scale(96, 3000)); i++ {
		w.Case("retry-template", nil, c07RetryTemplateCase)
	}
	for i := 0; i < w.Share(w.Scale(64, 1000)); i++ {
		w.Case("restart-pending-removal", nil, c07RestartPendingRemovalCase)
	}
	for i := 0; i < w.Share(w.Scale(64, 2000)); i++ {
		w.Case("removal-gate", nil, c07RemovalGateCase)
	}
	for i := 0; i < w.Share(w.Scale(320, 20000)); i++ {
		w.Case("refcount-lifecycle", nil, c07RefCountLifecycleCase)
	}
	for i := 0; i < w.Share(w.Scale(64, 2000)); i++ {
		w.Case("constructors", nil, c07ConstructorsCase)
	}
	for i := 0; i < w.Share(w.Scale(16, 160)); i++ {
		w.Case("retry-per-key", nil, c07RetryPerKeyCase)
	}
}

func c07BurstCase(c *mon.Case, retry bool) {
	r := c.Rng
	nKeys := 1 + r.IntN(4)
	keys := make([]string, nKeys)
	for i := range keys {
		keys[i] = fmt.Sprint("k", i)
	}
	exitLat := 50 + r.IntN(300)
	seedB := r.Uint64()
	behave := func(n int, key string, ctor int) (bool, int, error) {
		x := mon.SubSeed(seedB, key, uint64(n))
		switch x % 8 {
		case 0, 1:
			if retry && n < 40 {
				switch (x >> 16) % 4 {
				case 0:
					// a routine may fail with context.Canceled (e.g. from a sub-context of its own) while its own context is live
					return false, int(x>>8) % 40, context.Canceled
				case 1:
					return false, int(x>>8) % 40, fmt.Errorf("inst-error-%d: %w", n, context.Canceled)
				}
				return false, int(x>>8) % 40, fmt.Errorf("inst-error-%d", n)
			}
			return true, exitLat, nil
		case 2:
			return false, int(x>>8) % 40, nil
		default:
			return true, int(x>>8) % (2 * exitLat), nil
		}
	}
	w := newK7World(c, retry, 0, behave)
	cx := &rtCtxs{}
	defer cx.cancelAll()
	present := map[string]bool{}
	// lastCtxChange / lastRestarting[key]: stamps used to excuse retry obligations
	var lastCtxChange int64
	lastNonRestarting := map[string]int64{}
	add := func(key string) {
		if !present[key] {
			w.mu.Lock()
			w.epoch[key]++
			w.mu.Unlock()
			present[key] = true
		}
	}
	removeClaim := func(key string, call int64) {
		// after RemoveKey returned: instances of that epoch entered before the call are cancelled; none may start live
		w.mu.Lock()
		ep := w.epoch[key]
		w.removed[epochKey(key, ep)] = c.Stamp()
		w.mu.Unlock()
		present[key] = false
		c.Count("removal_claims_checked", 1)
		for _, in := range w.instances() {
			if in.key == key && in.epoch == ep && in.enter < call && in.exit.Load() == 0 && in.ctx.Err() == nil {
				c.Violate("removal", "keyed-removed-instance-not-cancelled", "RemoveKey(%s) (called at %d) returned, but instance #%d of that key (entered %d) still has a live context", key, call, in.n, in.enter)
			}
		}
	}
	runningNow := func(key string) bool {
		for _, in := range w.instances() {
			if in.key == key && in.exit.Load() == 0 {
				return true
			}
		}
		return false
	}
	retryPending := func(key string) bool {
		if !retry {
			return false
		}
		var last *k7Inst
		for _, in := range w.instances() {
			if in.key == key {
				last = in
			}
		}
		return last != nil && last.exit.Load() != 0 && last.err != nil && !last.superseded
	}
	nBursts := 3 + r.IntN(6)
	for b := 0; b < nBursts && !c.Violated(); b++ {
		kn := 2 + r.IntN(5)
		superseded := map[string]int{}
		for j := 0; j < kn; j++ {
			key := keys[r.IntN(nKeys)]
			wasRunning := runningNow(key)
			if retryPending(key) {
				c.Count("calls_while_retry_pending", 1)
				c.NonTrivial()
			}
			switch k := r.IntN(16); {
			case k < 3:
				start := r.IntN(2) == 0
				add(key)
				c.Rec("d", fmt.Sprint("SetKey ", key, " start=", start), nil)
				w.k.SetKey(key, start)
				if !start {
					lastNonRestarting[key] = c.Stamp()
				}
			case k < 5:
				call := c.Rec("d", "RemoveKey "+key, nil)
				if w.k.RemoveKey(key) {
					removeClaim(key, call)
				}
			case k < 6:
				n := r.IntN(nKeys + 1)
				list := make([]string, n)
				listed := map[string]bool{}
				for q := range list {
					list[q] = keys[r.IntN(nKeys)]
					listed[list[q]] = true
				}
				for kk := range listed {
					add(kk)
				}
				var wantRemoved []string
				for _, kk := range keys {
					if present[kk] && !listed[kk] {
						wantRemoved = append(wantRemoved, kk)
					}
				}
				call := c.Rec("d", fmt.Sprint("SyncKeys ", list), nil)
				_, removed := w.k.SyncKeys(list, r.IntN(2) == 0)
				got := map[string]bool{}
				for _, kk := range removed {
					got[kk] = true
				}
				for _, kk := range wantRemoved {
					if !got[kk] {
						c.Violate("removal", "keyed-synckeys-did-not-remove", "SyncKeys(%v) did not remove key %s, which was in the set and is not listed (removed=%v)", list, kk, removed)
					}
				}
				for _, kk := range removed {
					removeClaim(kk, call)
				}
			case k < 8:
				c.Rec("d", "RestartRoutine "+key, nil)
				w.k.RestartRoutine(key)
				if wasRunning {
					superseded[key]++
				}
			case k < 10:
				c.Rec("d", "ResetRoutine "+key, nil)
				w.k.ResetRoutine(key)
				if wasRunning {
					superseded[key]++
				}
			case k < 11:
				if r.IntN(2) == 0 {
					c.Rec("d", "RestartAllRoutines", nil)
					w.k.RestartAllRoutines()
				} else {
					c.Rec("d", "ResetAllRoutines", nil)
					w.k.ResetAllRoutines(func(string, int) bool { return true })
				}
				if wasRunning {
					superseded[key]++
				}
			case k < 13:
				if len(cx.all) >= 2 && r.IntN(4) == 0 {
					c.Rec("d", "cancel a context that was replaced earlier", nil)
					c.Count("replaced_context_cancelled", 1)
					cx.all[r.IntN(len(cx.all)-1)]()
				}
				ctx, tag := cx.fresh()
				if r.IntN(8) == 0 {
					// a context that is already done (cancelled / deadline passed): it replaces the previous one all the same
					ctx, tag = cx.freshDone(r.IntN(2))
					c.Count("setcontext_done_context_calls", 1)
				}
				restart := r.IntN(2) == 0
				c.Rec("d", fmt.Sprint("SetContext new#", tag, " restart=", restart, " done=", ctx.Err() != nil), nil)
				w.k.SetContext(ctx, restart)
				lastCtxChange = c.Stamp()
				if wasRunning {
					superseded[key]++
				}
			case k < 14:
				if cx.cur != nil {
					restart := r.IntN(2) == 0
					c.Rec("d", fmt.Sprint("SetContext same restart=", restart), nil)
					w.k.SetContext(cx.cur, restart)
				}
			case k < 15:
				call := c.Rec("d", "ClearContext", nil)
				w.k.ClearContext()
				cx.cur, cx.curTag = nil, 0
				lastCtxChange = c.Stamp()
				for _, in := range w.instances() {
					if in.enter < call && in.exit.Load() == 0 && in.ctx.Err() == nil {
						c.Violate("removal", "keyed-clearcontext-instance-not-cancelled", "ClearContext (called at %d) returned, but instance #%d of key %s still has a live context", call, in.n, in.key)
					}
				}
			default:
				w.k.GetKey(key)
				w.k.GetKeys()
				lastNonRestarting[key] = c.Stamp()
			}
			if r.IntN(3) == 0 {
				runtime.Gosched()
			}
		}
		for _, n := range superseded {
			if n >= 2 {
				c.Count("supersessions_while_exiting", 1)
				c.NonTrivial()
			}
		}
		if r.IntN(3) != 0 {
			if !w.settle() {
				c.Inconclusive("no quiescence between bursts")
				return
			}
			// survivors and retry obligations at a settled state
			live := map[string][]*k7Inst{}
			lastOf := map[string]*k7Inst{}
			for _, in := range w.instances() {
				if in.exit.Load() == 0 && in.ctx.Err() == nil {
					live[in.key] = append(live[in.key], in)
				}
				lastOf[in.key] = in
			}
			for key, l := range live {
				if len(l) > 1 {
					c.Violate("overlap", "keyed-two-live-instances", "at quiescence key %s has %d instances with a live context", key, len(l))
				}
				for _, in := range l {
					w.mu.Lock()
					ep := w.epoch[key]
					w.mu.Unlock()
					if !present[key] || in.epoch != ep {
						c.Violate("removal", "keyed-live-instance-of-removed-key", "at quiescence instance #%d of key %s (epoch %d) is live although the key was removed (present=%v, current epoch %d)", in.n, key, in.epoch, present[key], ep)
					} else if cx.cur == nil || in.tag != cx.curTag {
						c.Violate("removal", "keyed-live-instance-of-old-context", "at quiescence instance #%d of key %s derives from context #%d, the current one is #%d", in.n, key, in.tag, cx.curTag)
					}
				}
			}
			if retry && cx.cur != nil && cx.cur.Err() == nil {
				for key, in := range lastOf {
					if !present[key] || in.exit.Load() == 0 || in.err == nil || in.superseded {
						continue
					}
					w.mu.Lock()
					ep := w.epoch[key]
					w.mu.Unlock()
					if in.epoch != ep || in.pre < lastCtxChange {
						continue // a context change after the failure may legitimately drop the retry
					}
					c.Count("retry_obligations_checked", 1)
					c.Violate("retry", "keyed-failed-routine-not-retried", "key %s is in the set, the context is live and retry is configured, yet at quiescence (>= 30 backoff periods later) its last instance #%d failed with %v and was not run again (last non-restarting call on the key at %d, failure at %d)", key, in.n, in.err, lastNonRestarting[key], in.pre)
				}
				c.Count("retry_obligations_checked", 1)
			}
		} else {
			time.Sleep(time.Duration(r.IntN(exitLat)) * time.Microsecond)
		}
	}
	w.k.ClearContext()
	cx.cancelAll()
	if !w.settle() {
		c.Inconclusive("no quiescence at the end")
		return
	}
	for _, in := range w.instances() {
		if in.exit.Load() == 0 {
			c.Violate("removal", "keyed-instance-leaked", "after ClearContext instance #%d of key %s has not returned at quiescence", in.n, in.key)
			break
		}
	}
}

// c07TimerGateCase: a fired retry-timer callback is held before the mutex while the routine is restarted and returns.
func c07TimerGateCase(c *mon.Case) {
	r := c.Rng
	variant := r.IntN(4) // 0 RestartRoutine 1 ResetRoutine 2 SetKey(start) 3 SetContext(new,restart)
	behave := func(n int, key string, ctor int) (bool, int, error) {
		if n == 0 {
			return false, 0, fmt.Errorf("inst-error-0")
		}
		return false, 0, nil
	}
	w := newK7World(c, true, 0, behave)
	cx := &rtCtxs{}
	defer cx.cancelAll()
	g := mon.NewGate(verifhook.KeyedTimer, w.k, 1)
	ctx, _ := cx.fresh()
	w.k.SetContext(ctx, false)
	w.mu.Lock()
	w.epoch["a"] = 1
	w.mu.Unlock()
	w.k.SetKey("a", true)
	if !g.WaitArrived(5 * time.Second) {
		g.Release()
		c.Inconclusive("retry timer never fired")
		return
	}
	what := ""
	switch variant {
	case 0:
		what = "RestartRoutine"
		w.k.RestartRoutine("a")
	case 1:
		what = "ResetRoutine"
		w.k.ResetRoutine("a")
	case 2:
		what = "SetKey(start=true)"
		w.k.SetKey("a", true)
	default:
		what = "SetContext(new, restart=true)"
		ctx2, _ := cx.fresh()
		w.k.SetContext(ctx2, true)
	}
	if !mon.Quiesce(5 * time.Second) {
		g.Release()
		c.Inconclusive("no quiescence while the timer callback is parked")
		return
	}
	before := len(w.instances())
	c.Rec("d", "release the parked retry-timer callback after "+what, nil)
	g.Release()
	c.Count("gated_timer_templates", 1)
	c.NonTrivial()
	c.Mix(uint64(variant))
	if !w.settle() || g.TimedOut.Load() {
		c.Inconclusive("no quiescence after release")
		return
	}
	if before != 2 {
		c.Inconclusive(fmt.Sprintf("unexpected instance count %d before release", before))
		return
	}
	if n := len(w.instances()); n != 2 {
		c.Violate("retry", "keyed-rerun-by-stale-retry-timer", "instance #0 failed and armed a retry timer; its callback was held before the mutex while %s ran and the next run returned success; after releasing the callback %d instances have entered in total, want 2 (a stale timer re-ran a routine that had succeeded)", what, n)
	}
	w.k.ClearContext()
}

// c07DelayedRemovalCase: with a release delay, a removed key's routine keeps running until the delay expires,
// then it is cancelled and nothing for the key starts again, whatever restart-type calls happened meanwhile.
func c07DelayedRemovalCase(c *mon.Case) {
	r := c.Rng
	d := 5 * time.Millisecond
	behave := func(n int, key string, ctor int) (bool, int, error) { return true, n % 3 * 20, nil }
	w := newK7World(c, false, d, behave)
	cx := &rtCtxs{}
	defer cx.cancelAll()
	ctx, _ := cx.fresh()
	w.k.SetContext(ctx, false)
	w.mu.Lock()
	w.epoch["a"] = 1
	w.mu.Unlock()
	w.k.SetKey("a", true)
	if !mon.Quiesce(5 * time.Second) {
		c.Inconclusive("no quiescence at start")
		return
	}
	tb := time.Now()
	call := c.Rec("d", "RemoveKey a (delay 5ms)", nil)
	w.k.RemoveKey("a")
	meanwhile := ""
	switch r.IntN(4) {
	case 0:
		meanwhile = "RestartRoutine"
		w.k.RestartRoutine("a")
	case 1:
		meanwhile = "ResetRoutine"
		w.k.ResetRoutine("a")
	case 2:
		meanwhile = "GetKey"
		w.k.GetKey("a")
	default:
		meanwhile = "nothing"
	}
	c.Rec("d", "meanwhile: "+meanwhile, nil)
	early := time.Since(tb) < d/2
	if _, ok := w.k.GetKey("a"); !ok && early && time.Since(tb) < d/2 {
		c.Violate("removal", "keyed-removed-before-delay", "the key was gone %v after RemoveKey with a %v release delay", time.Since(tb), d)
		return
	}
	if !mon.SettleTimers(d, 4, 4*d, 5*time.Second) {
		c.Inconclusive("no quiescence after the delay")
		return
	}
	c.Count("delayed_removal_expiry_checks", 1)
	c.NonTrivial()
	c.Mix(mon.HashBytes([]byte(meanwhile)))
	w.mu.Lock()
	w.removed[epochKey("a", 1)] = c.Stamp()
	w.mu.Unlock()
	if _, ok := w.k.GetKey("a"); ok {
		c.Violate("removal", "keyed-delayed-removal-never-happened", "RemoveKey(a) with a %v release delay was followed by %s and no re-request; %v later (4 delays, quiescent) the key is still in the set", d, meanwhile, time.Since(tb))
		return
	}
	for _, in := range w.instances() {
		if in.exit.Load() == 0 && in.ctx.Err() == nil {
			c.Violate("removal", "keyed-removed-instance-not-cancelled", "after the delayed removal of key a (RemoveKey at %d, then %s) instance #%d still has a live context at quiescence", call, meanwhile, in.n)
			return
		}
	}
	w.k.ClearContext()
}

// c07RestartPendingRemovalCase: the key's removal is pending (one-hour release delay, so no timer fires within the
// case), its routine then fails on its own; RestartRoutine / RestartAllRoutines restart it - the key is still in the set -
// and a later SetKey(start=false) finds the key and its running instance: never two instances, never an instance of a
// key that is not in the set.
func c07RestartPendingRemovalCase(c *mon.Case) {
	r := c.Rng
	failNow := make(chan struct{})
	var once sync.Once
	release := func() { once.Do(func() { close(failNow) }) }
	defer release()
	behave := func(n int, key string, ctor int) (bool, int, error) {
		if n == 0 {
			<-failNow
			return false, 0, fmt.Errorf("error-inst-0")
		}
		return true, 0, nil
	}
	w := newK7World(c, false, time.Hour, behave)
	ctx, cancel := context.WithCancel(context.Background())
	defer cancel()
	w.k.SetContext(ctx, false)
	w.k.SetKey("a", true)
	if !mon.Quiesce(5 * time.Second) {
		c.Inconclusive("no quiescence at start")
		return
	}
	w.k.RemoveKey("a")
	c.Rec("d", "RemoveKey a (delay 1h); the routine now fails on its own", nil)
	release()
	if !mon.Quiesce(5 * time.Second) {
		c.Inconclusive("no quiescence after the failure")
		return
	}
	what := "RestartRoutine"
	if r.IntN(2) == 0 {
		w.k.RestartRoutine("a")
	} else {
		what = "RestartAllRoutines"
		w.k.RestartAllRoutines()
	}
	c.Rec("d", what, nil)
	if !mon.Quiesce(5 * time.Second) {
		c.Inconclusive("no quiescence after the restart")
		return
	}
	c.Count("restart_pending_removal_templates", 1)
	c.NonTrivial()
	live := func() (n int, list string) {
		for _, in := range w.instances() {
			if in.exit.Load() == 0 && in.ctx.Err() == nil {
				n++
				list += fmt.Sprintf("#%d(ctor %d) ", in.n, in.ctor)
			}
		}
		return
	}
	_, present := w.k.GetKey("a")
	if n, list := live(); n != 0 && !present {
		c.Violate("removal", "keyed-instance-of-absent-key", "RemoveKey(a) (one-hour release delay), the routine failed, then %s: GetKey(a) reports the key absent while instance(s) %srun with a live context", what, list)
		return
	} else if n > 1 {
		c.Violate("overlap", "keyed-instances-overlap", "after %s of a key whose removal is pending, %d instances run: %s", what, n, list)
		return
	}
	w.k.SetKey("a", false)
	if !mon.Quiesce(5 * time.Second) {
		c.Inconclusive("no quiescence after SetKey")
		return
	}
	if n, list := live(); n > 1 {
		c.Violate("overlap", "keyed-instances-overlap", "RemoveKey(a) (one-hour release delay), the routine failed, %s, SetKey(a, start=false): %d instances of key a run with live contexts: %s", what, n, list)
	}
	w.k.ClearContext()
}

// c07RetryTemplateCase: a failed routine of a key that stays in the set is run again after its backoff
// whatever non-restarting calls land inside the backoff interval.
func c07RetryTemplateCase(c *mon.Case) {
	r := c.Rng
	variant := r.IntN(7)
	errKind := r.IntN(3) // 0 plain error, 1 context.Canceled value, 2 wrapped context.Canceled (the routine's own context stays live)
	if variant == 5 {
		errKind = 0
	}
	failNow := make(chan struct{})
	behave := func(n int, key string, ctor int) (bool, int, error) {
		if n == 0 {
			if variant == 3 {
				<-failNow
			}
			if variant == 5 {
				// runs until its context is cancelled and the driver lets it go, then fails with an error of its own
				<-failNow
				return true, 0, fmt.Errorf("inst-error-0")
			}
			switch errKind {
			case 1:
				return false, 0, context.Canceled
			case 2:
				return false, 0, fmt.Errorf("wrapped: %w", context.Canceled)
			}
			return false, 0, fmt.Errorf("inst-error-0")
		}
		return true, 0, nil
	}
	bo := 40 * time.Millisecond
	delay := time.Duration(0)
	if variant == 3 {
		bo, delay = time.Millisecond, 30*time.Millisecond
	}
	w := &k7World{c: c, retry: true, delay: delay, behave: behave, epoch: map[string]int{"a": 1}, removed: map[string]int64{}, ctorKey: map[int]string{}}
	opts := []keyed.Option[string, int]{keyed.WithBackoff[string, int](func(string) cbackoff.BackOff { return cbackoff.NewConstantBackOff(bo) })}
	if delay != 0 {
		opts = append(opts, keyed.WithReleaseDelay[string, int](delay))
	}
	w.k = keyed.NewKeyed(w.ctor, opts...)
	cx := &rtCtxs{}
	defer cx.cancelAll()
	ctx, _ := cx.fresh()
	w.k.SetContext(ctx, false)
	w.k.SetKey("a", true)
	what := ""
	t0 := time.Now()
	if variant == 3 {
		what = "RemoveKey (30 ms delay), failure, backoff elapsed, SetKey(start=false)"
		w.k.RemoveKey("a")
		close(failNow)
		time.Sleep(6 * time.Millisecond) // several 1 ms backoff periods, well inside the 30 ms release delay
		w.k.SetKey("a", false)
		if time.Since(t0) > delay/2 {
			c.Inconclusive("too slow: the re-request may have missed the release delay")
			return
		}
	} else {
		if variant == 5 {
			// the owner cancels the root context without telling the container; a non-restarting call notices it;
			// only then does the routine return its error
			if !mon.Quiesce(5 * time.Second) {
				c.Inconclusive("no quiescence before the root cancel")
				return
			}
			cx.cancel()
			w.k.SyncKeys([]string{"a"}, false)
			close(failNow)
		}
		if !mon.Quiesce(5 * time.Second) {
			c.Inconclusive("no quiescence after the failure")
			return
		}
		if len(w.instances()) != 1 || w.instances()[0].exit.Load() == 0 {
			c.Inconclusive("first instance did not fail in time")
			return
		}
		t0 = time.Now()
		switch variant {
		case 0:
			what = "SetKey(start=false)"
			w.k.SetKey("a", false)
		case 1:
			what = "SyncKeys([a], restart=false)"
			w.k.SyncKeys([]string{"a"}, false)
		case 4:
			// a context change that does not restart errored routines must leave the retry in place
			what = "SetContext(other context, restart=false)"
			ctx2, _ := cx.fresh()
			w.k.SetContext(ctx2, false)
		case 6:
			// clearing the context and setting another one (neither restarts errored routines) leaves the retry in place
			what = "ClearContext, then SetContext(other context, restart=false)"
			w.k.ClearContext()
			ctx2, _ := cx.fresh()
			w.k.SetContext(ctx2, false)
		case 5:
			what = "root context cancelled by its owner, SyncKeys([a], restart=false), then the failure, then SetContext(new context, restart=false)"
			ctx2, _ := cx.fresh()
			w.k.SetContext(ctx2, false)
		default:
			what = "GetKey/GetKeys/GetKeysWithData"
			w.k.GetKey("a")
			w.k.GetKeys()
			w.k.GetKeysWithData()
		}
		if time.Since(t0) > bo/2 {
			c.Inconclusive("too slow: the call may have missed the backoff interval")
			return
		}
	}
	c.Rec("d", "inside the backoff interval: "+what, nil)
	c.Count("calls_while_retry_pending", 1)
	c.NonTrivial()
	c.Mix(uint64(variant)<<4 | uint64(errKind))
	what += fmt.Sprintf(" (failure error kind %d: 0 plain, 1 context.Canceled, 2 wrapped context.Canceled)", errKind)
	if !mon.SettleTimers(bo, 3, 3*bo+3*delay, 10*time.Second) {
		c.Inconclusive("no quiescence after the backoff")
		return
	}
	c.Count("retry_obligations_checked", 1)
	if _, ok := w.k.GetKey("a"); !ok {
		c.Violate("removal", "keyed-rerequested-key-removed", "the key was re-requested inside the release delay but is gone afterwards (%s)", what)
		return
	}
	if n := len(w.instances()); n < 2 {
		c.Violate("retry", "keyed-failed-routine-not-retried", "the routine of key a failed; inside its backoff interval only %s happened; %v later (3 backoff periods, quiescent) it has not been run again although the key is in the set with retry configured", what, time.Since(t0))
	}
	w.k.ClearContext()
}

// c07RemovalGateCase: the delayed-removal timer has fired and its callback is parked before the mutex while the
// key is requested again: the key stays, its routine keeps its live context, nothing is cancelled.
func c07RemovalGateCase(c *mon.Case) {
	r := c.Rng
	behave := func(n int, key string, ctor int) (bool, int, error) { return true, 0, nil }
	w := newK7World(c, false, 10*time.Millisecond, behave)
	cx := &rtCtxs{}
	defer cx.cancelAll()
	ctx, _ := cx.fresh()
	w.k.SetContext(ctx, false)
	w.mu.Lock()
	w.epoch["a"] = 1
	w.mu.Unlock()
	w.k.SetKey("a", true)
	g := mon.NewGate(verifhook.KeyedTimer, w.k, 1)
	w.k.RemoveKey("a")
	if !g.WaitArrived(5 * time.Second) {
		g.Release()
		c.Inconclusive("removal timer never fired")
		return
	}
	how := ""
	switch r.IntN(3) {
	case 0:
		how = "SetKey(start=false)"
		if _, existed := w.k.SetKey("a", false); !existed {
			c.Violate("removal", "keyed-pending-key-not-present", "SetKey during the pending removal reports the key as absent")
		}
	case 1:
		how = "SetKey(start=true)"
		w.k.SetKey("a", true)
	default:
		how = "SyncKeys([a])"
		if added, _ := w.k.SyncKeys([]string{"a"}, false); len(added) != 0 {
			c.Violate("removal", "keyed-pending-key-not-present", "SyncKeys during the pending removal reports the key as added")
		}
	}
	c.Rec("d", "re-requested by "+how+" while the fired removal-timer callback is parked", nil)
	g.Release()
	c.Count("gated_timer_templates", 1)
	c.NonTrivial()
	c.Mix(mon.HashBytes([]byte(how)))
	if !mon.SettleTimers(10*time.Millisecond, 3, 30*time.Millisecond, 5*time.Second) || g.TimedOut.Load() {
		c.Inconclusive("no quiescence")
		return
	}
	if _, ok := w.k.GetKey("a"); !ok {
		c.Violate("removal", "keyed-rerequested-key-removed", "the key was requested again by %s after its removal timer had fired but before the callback took the mutex; afterwards the key is gone", how)
		return
	}
	live := 0
	for _, in := range w.instances() {
		if in.exit.Load() == 0 && in.ctx.Err() == nil {
			live++
		}
	}
	if live != 1 {
		c.Violate("removal", "keyed-rerequested-key-routine-cancelled", "after the re-request (%s) the key is in the set but %d instances with a live context exist, want exactly 1", how, live)
	}
	w.k.ClearContext()
}

// c07RefCountLifecycleCase drives the reference-counted front end over the same routines: its context calls, removal by
// the last Release / RemoveKey and its Restart/Reset calls have to keep the per-key lifecycle rules of the statement.
func c07RefCountLifecycleCase(c *mon.Case) {
	r := c.Rng
	exitLat := 10 + r.IntN(150)
	behave := func(n int, key string, ctor int) (bool, int, error) { return true, exitLat, nil } // run until cancelled, return a little later
	w := newK7World(c, false, 0, behave)
	rc := keyed.NewKeyedRefCount(w.ctor)
	cx := &rtCtxs{}
	defer cx.cancelAll()
	keys := []string{"a", "b", "c"}[:1+r.IntN(3)]
	refs := map[string][]*keyed.KeyedRef[string, int]{}
	present := func(k string) bool { return len(refs[k]) > 0 }
	checkCancelled := func(call int64, what string, onlyKey string) {
		for _, in := range w.instances() {
			if (onlyKey == "" || in.key == onlyKey) && in.enter < call && in.exit.Load() == 0 && in.ctx.Err() == nil {
				c.Violate("removal", "keyedrefcount-instance-not-cancelled", "%s (called at %d) returned, but instance #%d of key %s still has a live context", what, call, in.n, in.key)
			}
		}
	}
	ctx, _ := cx.fresh()
	rc.SetContext(ctx, false)
	hist := ""
	for i := 0; i < 6+r.IntN(14) && !c.Violated(); i++ {
		key := keys[r.IntN(len(keys))]
		switch k := r.IntN(12); {
		case k < 4:
			if !present(key) {
				w.mu.Lock()
				w.epoch[key]++
				w.mu.Unlock()
			}
			ref, _, _ := rc.AddKeyRef(key)
			refs[key] = append(refs[key], ref)
			hist += "AddKeyRef(" + key + ") "
		case k < 7:
			if l := refs[key]; len(l) > 0 {
				ref := l[len(l)-1]
				refs[key] = l[:len(l)-1]
				last := len(refs[key]) == 0
				call := c.Rec("d", "Release "+key, last)
				ref.Release()
				hist += "Release(" + key + ") "
				if last {
					// the mark is taken after the removing call returned: an instance that enters live later was started after the removal
					w.mu.Lock()
					w.removed[epochKey(key, w.epoch[key])] = c.Stamp()
					w.mu.Unlock()
					checkCancelled(call, "the last Release of key "+key, key)
				}
			}
		case k < 8:
			call := c.Rec("d", "RemoveKey "+key, nil)
			wasPresent := present(key)
			rc.RemoveKey(key)
			if wasPresent {
				w.mu.Lock()
				w.removed[epochKey(key, w.epoch[key])] = c.Stamp()
				w.mu.Unlock()
			}
			refs[key] = nil
			hist += "RemoveKey(" + key + ") "
			checkCancelled(call, "RemoveKey("+key+")", key)
		case k < 9:
			call := c.Rec("d", "ClearContext", nil)
			rc.ClearContext()
			cx.cur, cx.curTag = nil, 0
			hist += "ClearContext "
			checkCancelled(call, "ClearContext", "")
		case k < 10:
			nctx, tag := cx.fresh()
			call := c.Rec("d", fmt.Sprint("SetContext new#", tag), nil)
			rc.SetContext(nctx, r.IntN(2) == 0)
			hist += "SetContext(new) "
			checkCancelled(call, "SetContext(new)", "")
		case k < 11:
			c.Rec("d", "RestartRoutine "+key, nil)
			rc.RestartRoutine(key)
			hist += "RestartRoutine(" + key + ") "
		default:
			c.Rec("d", "ResetRoutine "+key, nil)
			rc.ResetRoutine(key)
			hist += "ResetRoutine(" + key + ") "
		}
		if r.IntN(3) == 0 {
			if !mon.Quiesce(5 * time.Second) {
				c.Inconclusive("no quiescence")
				return
			}
		}
	}
	if !mon.Quiesce(5 * time.Second) {
		c.Inconclusive("no quiescence")
		return
	}
	c.Count("keyedrefcount_lifecycle_cases", 1)
	c.Mix(mon.HashBytes([]byte(hist)))
	live := map[string]int{}
	for _, in := range w.instances() {
		if in.exit.Load() == 0 && in.ctx.Err() == nil {
			live[in.key]++
			if !present(in.key) || cx.cur == nil {
				c.Violate("removal", "keyed-live-instance-of-removed-key", "at quiescence instance #%d of key %s is live although the key has no reference / the context was cleared (references %d, context set %v). History: %s", in.n, in.key, len(refs[in.key]), cx.cur != nil, hist)
			} else if in.tag != cx.curTag {
				c.Violate("removal", "keyed-live-instance-of-old-context", "at quiescence instance #%d of key %s derives from context #%d, the current one is #%d. History: %s", in.n, in.key, in.tag, cx.curTag, hist)
			}
		}
	}
	for k, n := range live {
		if n > 1 {
			c.Violate("overlap", "keyed-two-live-instances", "at quiescence key %s has %d live instances. History: %s", k, n, hist)
		}
	}
	if len(live) > 0 {
		c.NonTrivial()
		c.Count("keyedrefcount_live_instances_seen", int64(len(live)))
	}
	rc.ClearContext()
	cx.cancelAll()
	if !mon.Quiesce(5 * time.Second) {
		c.Inconclusive("no quiescence at the end")
		return
	}
	for _, in := range w.instances() {
		if in.exit.Load() == 0 {
			c.Violate("removal", "keyed-instance-leaked", "after ClearContext instance #%d of key %s has not returned at quiescence", in.n, in.key)
			break
		}
	}
}

// c07ConstructorsCase: every documented constructor honours its options (retry + exit callback): a routine that fails
// once and then succeeds is run exactly twice while its key stays in the set, and the exit callback sees both exits.
func c07ConstructorsCase(c *mon.Case) {
	r := c.Rng
	kind := r.IntN(4)
	retryKind := r.IntN(2)
	var mu sync.Mutex
	var cbs []error
	var entries atomic.Int64
	errFirst := fmt.Errorf("inst-error-0")
	switch r.IntN(3) {
	case 1:
		errFirst = context.Canceled
	case 2:
		errFirst = fmt.Errorf("inst-error-0: %w", context.Canceled)
	}
	ctor := func(key string) (keyed.Routine, int) {
		return func(ctx context.Context) error {
			n := entries.Add(1)
			c.Rec("inst", fmt.Sprint("enter ", n), nil)
			if n == 1 {
				return errFirst
			}
			return nil
		}, 1
	}
	opts := []keyed.Option[string, int]{keyed.WithExitCb(func(key string, _ keyed.Routine, data int, err error) {
		mu.Lock()
		cbs = append(cbs, err)
		mu.Unlock()
	})}
	if retryKind == 0 && r.IntN(3) == 0 {
		opts = append(opts, keyed.WithBackoff[string, int](func(string) cbackoff.BackOff { return &cbackoff.ZeroBackOff{} }))
	} else if retryKind == 0 {
		opts = append(opts, keyed.WithBackoff[string, int](func(string) cbackoff.BackOff { return cbackoff.NewConstantBackOff(rtBackoff) }))
	} else {
		opts = append(opts, keyed.WithRetry[string, int](&ubackoff.Backoff{BackoffKind: ubackoff.BackoffKind_BackoffKind_CONSTANT, Constant: &ubackoff.Constant{Interval: 1}}))
	}
	if r.IntN(2) == 0 {
		opts[0], opts[1] = opts[1], opts[0]
	}
	ctx, cancel := context.WithCancel(context.Background())
	defer cancel()
	names := []string{"NewKeyed", "NewKeyedWithLogger", "NewKeyedRefCount", "NewKeyedRefCountWithLogger"}
	var clear func()
	switch kind {
	case 0, 1:
		var k *keyed.Keyed[string, int]
		if kind == 0 {
			k = keyed.NewKeyed(ctor, opts...)
		} else {
			k = keyed.NewKeyedWithLogger(ctor, discardLogger(), opts...)
		}
		k.SetContext(ctx, false)
		k.SetKey("a", true)
		clear = k.ClearContext
	default:
		var k *keyed.KeyedRefCount[string, int]
		if kind == 2 {
			k = keyed.NewKeyedRefCount(ctor, opts...)
		} else {
			k = keyed.NewKeyedRefCountWithLogger(ctor, discardLogger(), opts...)
		}
		k.SetContext(ctx, false)
		ref, _, _ := k.AddKeyRef("a")
		defer ref.Release()
		clear = k.ClearContext
	}
	c.Count("constructor_templates", 1)
	c.NonTrivial()
	c.Mix(uint64(kind)<<1 | uint64(retryKind))
	prev := int64(-1)
	for i := 0; i < 20; i++ {
		if !mon.SettleTimers(rtBackoff, 30, 15*time.Millisecond, 10*time.Second) {
			c.Inconclusive("no quiescence")
			return
		}
		if n := entries.Load(); n == prev {
			break
		} else {
			prev = n
		}
	}
	mu.Lock()
	g := append([]error(nil), cbs...)
	mu.Unlock()
	if n := entries.Load(); n != 2 {
		sig := "keyed-failed-routine-not-retried"
		if n > 2 {
			sig = "keyed-rerun-without-cause"
		}
		c.Violate("retry", sig, "%s with retry configured (kind %d): the routine of key a fails once and then succeeds, so it must run exactly twice; it ran %d times", names[kind], retryKind, n)
	}
	_ = g // what the exit callback saw is recorded, not judged: C07 does not speak about exit callbacks
	clear()
}

// c07RetryPerKeyCase: with WithRetry every key has a retry schedule of its own. Key a fails until its backoff gives up
// (MaxElapsedTime); key b, added afterwards, fails once and then succeeds: it must still be run again.
func c07RetryPerKeyCase(c *mon.Case) {
	const maxElapsed = 300 * time.Millisecond
	var mu sync.Mutex
	runs := map[string]int{}
	var bFirstExit time.Time
	ctor := func(key string) (keyed.Routine, int) {
		return func(ctx context.Context) error {
			mu.Lock()
			runs[key]++
			n := runs[key]
			mu.Unlock()
			if key == "a" {
				return fmt.Errorf("key a always fails (run %d)", n)
			}
			if n == 1 {
				mu.Lock()
				bFirstExit = time.Now()
				mu.Unlock()
				return fmt.Errorf("key b fails once")
			}
			return nil
		}, 1
	}
	k := keyed.NewKeyed(ctor, keyed.WithRetry[string, int](&ubackoff.Backoff{
		BackoffKind: ubackoff.BackoffKind_BackoffKind_EXPONENTIAL,
		Exponential: &ubackoff.Exponential{InitialInterval: 1, MaxInterval: 2, Multiplier: 1.5, MaxElapsedTime: uint32(maxElapsed / time.Millisecond)},
	}))
	ctx, cancel := context.WithCancel(context.Background())
	defer cancel()
	k.SetContext(ctx, false)
	k.SetKey("a", true)
	// let key a's backoff run out (its retries stop for good), then some
	time.Sleep(maxElapsed + 100*time.Millisecond)
	if !mon.SettleTimers(2*time.Millisecond, 5, 20*time.Millisecond, 10*time.Second) {
		c.Inconclusive("no quiescence after key a gave up")
		return
	}
	t0 := time.Now()
	k.SetKey("b", true)
	if !mon.SettleTimers(2*time.Millisecond, 10, 40*time.Millisecond, 10*time.Second) {
		c.Inconclusive("no quiescence after adding key b")
		return
	}
	mu.Lock()
	rb, ra, fe := runs["b"], runs["a"], bFirstExit
	mu.Unlock()
	c.Count("retry_per_key_templates", 1)
	c.NonTrivial()
	c.Mix(uint64(ra))
	if fe.IsZero() || fe.Sub(t0) > maxElapsed/3 {
		c.Inconclusive("key b's first run came too late to judge against its backoff's MaxElapsedTime")
		return
	}
	if rb != 2 {
		c.Violate("retry", "keyed-failed-routine-not-retried", "WithRetry(exponential, MaxElapsedTime %v): key a failed %d times until its backoff gave up; key b, added afterwards, failed once within %v of being added and must be run again after its own backoff, but it ran %d time(s) in total (want 2)", maxElapsed, ra, fe.Sub(t0), rb)
	}
	k.ClearContext()
}

// c06SyncAfterPanicCase: a constructor callback panics in the middle of a SyncKeys call and the caller recovers. Whatever
// that call managed to do, the key set stays consistent: a following SyncKeys removes exactly the keys that are present
// and not listed, and reports them.
func c06SyncAfterPanicCase(c *mon.Case) {
	r := c.Rng
	ctor := func(key string) (keyed.Routine, int) {
		if key == "P" {
			panic("constructor panics (recovered by the caller)")
		}
		return nil, 1
	}
	k := keyed.NewKeyed(ctor)
	ctx, cancel := context.WithCancel(context.Background())
	defer cancel()
	if r.IntN(2) == 0 {
		k.SetContext(ctx, false)
	}
	all := []string{"a", "b", "c", "d"}
	for _, key := range all[:1+r.IntN(3)] {
		k.SetKey(key, r.IntN(2) == 0)
	}
	// a list with the panicking key somewhere inside
	var list []string
	for _, key := range all {
		if r.IntN(2) == 0 {
			list = append(list, key)
		}
	}
	pos := r.IntN(len(list) + 1)
	list = append(list[:pos], append([]string{"P"}, list[pos:]...)...)
	func() {
		defer func() { _ = recover() }()
		k.SyncKeys(list, r.IntN(2) == 0)
	}()
	c.Count("sync_after_panic_templates", 1)
	c.NonTrivial()
	c.Mix(mon.HashBytes([]byte(fmt.Sprint(list))))
	present := map[string]bool{}
	for _, key := range k.GetKeys() {
		present[key] = true
	}
	var keep []string
	for _, key := range all {
		if r.IntN(3) == 0 {
			keep = append(keep, key)
		}
	}
	want := map[string]bool{}
	for key := range present {
		listed := false
		for _, kk := range keep {
			if kk == key {
				listed = true
			}
		}
		if !listed {
			want[key] = true
		}
	}
	_, removed := k.SyncKeys(keep, false)
	got := map[string]bool{}
	for _, key := range removed {
		got[key] = true
	}
	if fmt.Sprint(got) != fmt.Sprint(want) {
		c.Violate("model", "synckeys-removed", "a constructor panicked inside SyncKeys(%v) (recovered); the key set was then %v; SyncKeys(%v) returned removed=%v, the key set implies %v", list, present, keep, removed, want)
		return
	}
	after := map[string]bool{}
	for _, key := range k.GetKeys() {
		after[key] = true
	}
	wantAfter := map[string]bool{}
	for _, key := range keep {
		wantAfter[key] = true
	}
	if fmt.Sprint(after) != fmt.Sprint(wantAfter) {
		c.Violate("model", "keyset-mismatch", "after the panic in SyncKeys(%v) and SyncKeys(%v) the key set is %v, want %v", list, keep, after, wantAfter)
	}
}
