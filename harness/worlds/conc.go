package worlds

import (
	"context"
	"errors"
	"fmt"
	"runtime"
	"sync"
	"sync/atomic"
	"time"

	"github.com/aperturerobotics/util/conc"
	"github.com/aperturerobotics/util/verifhook"

	"verifharness/mon"
)

func init() {
	Registry["C18"] = Spec{
		Run: runC18, Workers: 16, GOMAXPROCS: 4,
		QuickTimeout: 6 * time.Minute, ThoroughTimeout: 30 * time.Minute,
		QuickFloor: 2000, ThoroughFloor: 40000,
		RequiredCounters: []string{"jobs_run_once", "count_pairs_checked", "waitidle_returns_judged", "order_checked_limit1", "enqueue_during_worker_retire", "watchstate_busy_reports", "count_pairs_with_queued_jobs", "ConcWorkerLock"},
		Rule: "each case builds one ConcurrentQueue (limit 0=unlimited,1,2,3,8; 0-3 initial jobs) and runs 1-4 producers enqueueing batches of 0-5 jobs (nil entries included) whose durations are instant, yielding or gated by the harness, a WatchState observer and 1-3 WaitIdle callers (with error channels delivering nil, an error, or closing); " +
			"jobs stamp start/end and count themselves; every (queued,running) pair returned or watched is checked; at the final quiescence every job ran exactly once; " +
			"non-trivial = at least one Enqueue was in progress while a worker was at its retire point (schedule point before the worker takes the lock); distinct = distinct orders of recorded events",
		Assumptions: append([]string{"for the limit-1 order check producers are serialised by the harness, so enqueue order is well defined"}, commonAssumptions...),
	}
}

func runC18(w *mon.Worker) {
	mon.SetMaxSleep(100 * time.Microsecond)
	mon.SetProb(0.3, verifhook.ConcWorkerLock)
	mon.SetProb(0.15, verifhook.BcastEnter, verifhook.BcastExit)
	for i := 0; i < w.Share(w.Scale(12000, 1200000)); i++ {
		w.Case("queue", nil, concCase)
	}
	mon.ClearProb()
}

type cjob struct {
	id         int
	kind       int // 0 instant 1 yield 2 gated 3 nil
	runs       atomic.Int64
	start, end atomic.Int64
	enqRet     atomic.Int64 // stamp at which the Enqueue call that added it returned
	enqOrder   int64
}

var errIdleTok = errors.New("waitidle-errch-token")

func concCase(c *mon.Case) {
	r := c.Rng
	limits := []int{0, 1, 1, 2, 3, 8}
	limit := limits[r.IntN(len(limits))]
	if r.IntN(12) == 0 {
		limit = []int{-1, -8, -1 << 31}[r.IntN(3)] // any non-positive limit is documented as unlimited
	}
	gate := make(chan struct{})
	var active atomic.Int64
	var enqInProgress atomic.Int64
	var mu sync.Mutex
	var startOrder []int
	var jobs []*cjob
	var nextOrder int64
	mkJob := func(kind int) (*cjob, func()) {
		mu.Lock()
		j := &cjob{id: len(jobs), kind: kind}
		jobs = append(jobs, j)
		mu.Unlock()
		if kind == 3 {
			return j, nil
		}
		return j, func() {
			j.start.Store(c.Rec("job", fmt.Sprint("start ", j.id), nil))
			j.runs.Add(1)
			a := active.Add(1)
			if limit > 0 && a > int64(limit) {
				c.Violate("conc", "limit-exceeded", "%d jobs are executing at once with limit %d (job %d just started)", a, limit, j.id)
			}
			mu.Lock()
			startOrder = append(startOrder, j.id)
			mu.Unlock()
			switch j.kind {
			case 1:
				runtime.Gosched()
			case 2:
				<-gate
			}
			active.Add(-1)
			j.end.Store(c.Rec("job", fmt.Sprint("end ", j.id), nil))
		}
	}
	mon.OnSite(verifhook.ConcWorkerLock, func(any) {
		if enqInProgress.Load() > 0 {
			c.Count("enqueue_during_worker_retire", 1)
			c.NonTrivial()
		}
	})
	defer mon.OnSite(verifhook.ConcWorkerLock, nil)

	checkPair := func(who string, queued, running int) {
		c.Count("count_pairs_checked", 1)
		if queued > 0 {
			// the interesting half of the invariant: somebody was told that jobs are waiting
			c.Count("count_pairs_with_queued_jobs", 1)
		}
		if queued < 0 || running < 0 {
			c.Violate("conc", "negative-count", "%s reported (queued %d, running %d)", who, queued, running)
		}
		if limit > 0 {
			if running > limit {
				c.Violate("conc", "count-running-over-limit", "%s reported running=%d with limit %d", who, running, limit)
			}
			if queued > 0 && running != limit {
				c.Violate("conc", "count-queued-while-below-limit", "%s reported queued=%d while running=%d is below the limit %d", who, queued, running, limit)
			}
		} else if queued > 0 {
			c.Violate("conc", "count-queued-unlimited", "%s reported queued=%d on an unlimited queue", who, queued)
		}
	}

	// initial elements
	var initial []func()
	var initJobs []*cjob
	for i := 0; i < r.IntN(4); i++ {
		j, f := mkJob(r.IntN(3))
		j.enqOrder = nextOrder
		nextOrder++
		initJobs = append(initJobs, j)
		initial = append(initial, f)
	}
	q := conc.NewConcurrentQueue(limit, initial...)
	t0 := c.Rec("main", fmt.Sprint("NewConcurrentQueue limit ", limit, " initial ", len(initial)), nil)
	for _, j := range initJobs {
		j.enqRet.Store(t0)
	}

	nProd := 1 + r.IntN(4)
	var orderMu sync.Mutex // serialises producers for limit 1
	serial := limit == 1
	start := make(chan struct{})
	var pwg sync.WaitGroup
	for p := 0; p < nProd; p++ {
		p := p
		nBatches := 1 + r.IntN(6)
		sizes := make([]int, nBatches)
		kinds := make([][]int, nBatches)
		for b := range sizes {
			sizes[b] = r.IntN(6)
			for k := 0; k < sizes[b]; k++ {
				kk := r.IntN(4)
				if kk == 3 && r.IntN(2) == 0 {
					kk = 0
				}
				kinds[b] = append(kinds[b], kk)
			}
		}
		pwg.Add(1)
		c.Go(fmt.Sprint("p", p), func() {
			defer pwg.Done()
			<-start
			for b := range sizes {
				if serial {
					orderMu.Lock()
				}
				var batch []func()
				var bj []*cjob
				for _, kk := range kinds[b] {
					j, f := mkJob(kk)
					mu.Lock()
					j.enqOrder = nextOrder
					nextOrder++
					mu.Unlock()
					bj = append(bj, j)
					batch = append(batch, f)
				}
				c.Rec(fmt.Sprint("p", p), fmt.Sprint("call Enqueue x", len(batch)), nil)
				enqInProgress.Add(1)
				queued, running := q.Enqueue(batch...)
				enqInProgress.Add(-1)
				ts := c.Rec(fmt.Sprint("p", p), "ret Enqueue", [2]int{queued, running})
				for _, j := range bj {
					j.enqRet.Store(ts)
				}
				if serial {
					orderMu.Unlock()
				}
				checkPair("Enqueue", queued, running)
				if b%2 == 0 {
					runtime.Gosched()
				}
			}
		})
	}
	// observer
	obsCtx, obsCancel := context.WithCancel(context.Background())
	defer obsCancel()
	c.Go("observer", func() {
		<-start
		n := 0
		err := q.WatchState(obsCtx, nil, func(queued, running int) (bool, error) {
			n++
			checkPair("WatchState", queued, running)
			if running > 0 {
				// the invariant on watched pairs is vacuous if WatchState only ever reports an idle queue
				c.Count("watchstate_busy_reports", 1)
			}
			return true, nil
		})
		if err != context.Canceled {
			c.Violate("conc", "watchstate-result", "WatchState returned %v after %d callbacks, want context.Canceled after its context was cancelled", err, n)
		}
	})
	// WaitIdle callers
	type idler struct {
		id        int
		mode      int // 0 plain, 1 errCh gets nil values, 2 errCh gets an error, 3 errCh closed
		errCh     chan error
		call, ret int64
		err       error
		fired     atomic.Int64
		returned  atomic.Bool
	}
	nIdle := 1 + r.IntN(3)
	idlers := make([]*idler, nIdle)
	for i := range idlers {
		id := &idler{id: i, mode: r.IntN(4)}
		if id.mode != 0 {
			id.errCh = make(chan error, 4)
		}
		idlers[i] = id
		delay := r.IntN(40)
		c.Go(fmt.Sprint("idle", i), func() {
			<-start
			for k := 0; k < delay; k++ {
				runtime.Gosched()
			}
			var ch <-chan error
			if id.errCh != nil {
				ch = id.errCh
			}
			id.call = c.Rec(fmt.Sprint("idle", id.id), fmt.Sprint("call WaitIdle mode ", id.mode), nil)
			id.err = q.WaitIdle(context.Background(), ch)
			id.ret = c.Rec(fmt.Sprint("idle", id.id), "ret WaitIdle", fmt.Sprint(id.err))
			id.returned.Store(true)
		})
	}
	c.Go("disturber", func() {
		<-start
		for _, id := range idlers {
			for k := 0; k < 10; k++ {
				runtime.Gosched()
			}
			switch id.mode {
			case 1:
				id.errCh <- nil
				id.errCh <- nil
			case 2:
				id.fired.Store(c.Rec("disturber", fmt.Sprint("errCh<-err idle", id.id), nil))
				id.errCh <- errIdleTok
			case 3:
				id.fired.Store(c.Rec("disturber", fmt.Sprint("close errCh idle", id.id), nil))
				close(id.errCh)
			}
		}
	})
	close(start)
	pdone := make(chan struct{})
	go func() { pwg.Wait(); close(pdone) }()
	select {
	case <-pdone:
	case <-time.After(20 * time.Second):
		close(gate)
		c.Inconclusive("producers did not finish")
		return
	}
	if !mon.Quiesce(10 * time.Second) {
		close(gate)
		c.Inconclusive("no quiescence with gated jobs")
		return
	}
	// gated jobs still hold the queue busy: a WaitIdle that returned nil by now is judged below
	c.Rec("main", "open gate", nil)
	close(gate)
	if !mon.Quiesce(10 * time.Second) {
		c.Inconclusive("no quiescence after opening the gate")
		return
	}
	mu.Lock()
	alljobs := append([]*cjob(nil), jobs...)
	order := append([]int(nil), startOrder...)
	mu.Unlock()
	// every job exactly once
	bad := false
	for _, j := range alljobs {
		if j.kind == 3 {
			continue
		}
		if n := j.runs.Load(); n != 1 {
			if n == 0 && !mon.QuiesceConfirmed(100*time.Millisecond, 10*time.Second) {
				c.Inconclusive("no quiescence in confirmation")
				return
			}
			if n = j.runs.Load(); n != 1 {
				c.Violate("conc", "job-run-count", "job %d (enqueued at %d) ran %d times at the final quiescence (limit %d, %d jobs)", j.id, j.enqRet.Load(), n, limit, len(alljobs))
				bad = true
				break
			}
		}
		c.Count("jobs_run_once", 1)
	}
	qd, rn := q.Enqueue()
	if !bad && (qd != 0 || rn != 0) {
		c.Violate("conc", "counts-nonzero-when-idle", "after every job finished Enqueue() reports (queued %d, running %d)", qd, rn)
	}
	// limit 1: start order equals enqueue order
	if limit == 1 && !bad {
		c.Count("order_checked_limit1", 1)
		byID := map[int]*cjob{}
		for _, j := range alljobs {
			byID[j.id] = j
		}
		last := int64(-1)
		for _, id := range order {
			if o := byID[id].enqOrder; o < last {
				c.Violate("conc", "limit1-order", "with limit 1 job %d (enqueue position %d) started after a job with enqueue position %d: start order %v", id, o, last, order)
				break
			} else {
				last = o
			}
		}
	}
	// WaitIdle
	for _, id := range idlers {
		if !id.returned.Load() {
			if mon.QuiesceConfirmed(100*time.Millisecond, 10*time.Second) && !id.returned.Load() {
				c.Violate("lost-wakeup", "waitidle-blocked-when-idle", "WaitIdle caller %d is still blocked in a quiescent process after every job finished (queued %d, running %d)", id.id, qd, rn)
			}
			continue
		}
		c.Count("waitidle_returns_judged", 1)
		switch {
		case id.err == nil:
			for _, j := range alljobs {
				if j.kind == 3 {
					continue
				}
				if er := j.enqRet.Load(); er != 0 && er < id.call {
					if e := j.end.Load(); e == 0 || e > id.ret {
						c.Violate("conc", "waitidle-returned-before-jobs-finished", "WaitIdle caller %d (call %d, mode %d) returned nil at %d although job %d, enqueued at %d, finished at %d (0 = not yet)", id.id, id.call, id.mode, id.ret, j.id, er, e)
						break
					}
				}
			}
		case id.err == errIdleTok:
			if id.mode != 2 || id.fired.Load() == 0 || id.fired.Load() > id.ret {
				c.Violate("conc", "waitidle-foreign-error", "WaitIdle caller %d returned the error-channel error that was not sent", id.id)
			}
		case id.err == context.Canceled:
			if id.mode != 3 || id.fired.Load() == 0 || id.fired.Load() > id.ret {
				c.Violate("conc", "waitidle-canceled-without-source", "WaitIdle caller %d (mode %d) returned context.Canceled without its context or a closed error channel", id.id, id.mode)
			}
		default:
			c.Violate("conc", "waitidle-foreign-error", "WaitIdle caller %d returned %v", id.id, id.err)
		}
	}
	obsCancel()
	c.WaitActors(5 * time.Second)
}
