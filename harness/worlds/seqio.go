package worlds

import (
	"bytes"
	"errors"
	"fmt"
	"io"
	"math"
	"math/big"
	"math/rand/v2"
	"net"
	"sort"
	"sync"
	"sync/atomic"
	"time"

	"github.com/aperturerobotics/util/iocloser"
	"github.com/aperturerobotics/util/ioproxy"
	"github.com/aperturerobotics/util/ioseek"
	"github.com/aperturerobotics/util/iosizer"
	"github.com/aperturerobotics/util/unique"

	"verifharness/mon"
)

func init() {
	Registry["C20"] = Spec{
		Run: runC20, Workers: 8, GOMAXPROCS: 4,
		QuickTimeout: 4 * time.Minute, ThoroughTimeout: 20 * time.Minute,
		QuickFloor: 5000, ThoroughFloor: 100000,
		RequiredCounters: []string{"seek_ops", "sizer_ops", "closer_ops", "proxy_bytes", "proxy_data_with_error_cases", "unique_ops"},
		Rule: "each case is one seed-generated operation sequence on a fresh object, stepped next to an independent reference model (bounded position model; running sum; close-once state machine; byte streams; map with class-based cmp); " +
			"non-trivial = the sequence contains an out-of-range/invalid/overflowing Seek, a short or failing wrapped read/write, a duplicate key inside one call, or a call after Close; distinct = distinct hashes over the operation sequence with its arguments and results",
		Assumptions: append([]string{"wrapped streams are in-process stubs with scripted short reads and errors; ioproxy runs over net.Pipe pairs"}, commonAssumptions...),
	}
}

func runC20(w *mon.Worker) {
	for i := 0; i < w.Share(w.Scale(16000, 9000000)); i++ {
		w.Case("ioseek", nil, seekCase)
	}
	for i := 0; i < w.Share(w.Scale(8000, 4500000)); i++ {
		w.Case("iosizer", nil, sizerCase)
	}
	for i := 0; i < w.Share(w.Scale(8000, 4500000)); i++ {
		w.Case("iocloser", nil, closerCase)
	}
	for i := 0; i < w.Share(w.Scale(800, 300000)); i++ {
		w.Case("iocloser-concurrent", nil, closerConcurrentCase)
	}
	for i := 0; i < w.Share(w.Scale(640, 180000)); i++ {
		w.Case("ioproxy", nil, proxyCase)
		w.Case("ioproxy-data-with-error", nil, proxyDataErrCase)
	}
	for i := 0; i < w.Share(w.Scale(16000, 9000000)); i++ {
		w.Case("unique", nil, uniqueCase)
	}
}

// ---------------------------------------------------------------- ioseek

var errStub = errors.New("stub read error")

// stubReaderAt serves data with scripted short reads and errors.
type stubReaderAt struct {
	data  []byte
	r     *rand.Rand
	mode  int // 0 exact, 1 short reads, 2 occasional errors
	calls int
	lastN int
	lastE error
}

func (s *stubReaderAt) ReadAt(p []byte, off int64) (int, error) {
	s.calls++
	n, err := s.readAt(p, off)
	s.lastN, s.lastE = n, err
	return n, err
}

func (s *stubReaderAt) readAt(p []byte, off int64) (int, error) {
	if off < 0 {
		return 0, errors.New("negative offset")
	}
	if off >= int64(len(s.data)) {
		return 0, io.EOF
	}
	avail := s.data[off:]
	n := len(p)
	var err error
	if n > len(avail) {
		n = len(avail)
		err = io.EOF
	}
	switch s.mode {
	case 1:
		if n > 1 && s.r.IntN(2) == 0 {
			n = 1 + s.r.IntN(n-1)
			err = nil
			if s.r.IntN(3) == 0 {
				err = io.ErrUnexpectedEOF
			}
		}
	case 2:
		if s.r.IntN(4) == 0 {
			n = s.r.IntN(n + 1)
			err = errStub
		}
	}
	copy(p, avail[:n])
	return n, err
}

func seekCase(c *mon.Case) {
	r := c.Rng
	size := r.IntN(40)
	if r.IntN(6) == 0 {
		size = 0
	}
	data := make([]byte, size)
	for i := range data {
		data[i] = byte(r.UintN(256))
	}
	stub := &stubReaderAt{data: data, r: r, mode: r.IntN(3)}
	rs := ioseek.NewReaderAtSeeker(stub, int64(size))
	pos := int64(0) // model
	nops := 5 + r.IntN(25)
	offs := []int64{0, 1, -1, 2, -2, int64(size), int64(size) + 1, -int64(size), -int64(size) - 1, int64(size) / 2,
		math.MaxInt64, math.MinInt64, math.MaxInt64 - 1, math.MinInt64 + 1, math.MaxInt64 - int64(size), 1 << 40, -(1 << 40)}
	for i := 0; i < nops; i++ {
		if r.IntN(3) != 0 {
			whence := r.IntN(5) - 1 // -1..3: includes invalid
			off := offs[r.IntN(len(offs))]
			if r.IntN(3) == 0 {
				off = int64(r.IntN(2*size+3)) - int64(size) - 1
			}
			got, err := rs.Seek(off, whence)
			c.Count("seek_ops", 1)
			// model with unbounded integers
			var base *big.Int
			switch whence {
			case io.SeekStart:
				base = big.NewInt(0)
			case io.SeekCurrent:
				base = big.NewInt(pos)
			case io.SeekEnd:
				base = big.NewInt(int64(size))
			}
			ok := false
			var want int64
			if base != nil {
				t := new(big.Int).Add(base, big.NewInt(off))
				if t.Sign() >= 0 && t.Cmp(big.NewInt(int64(size))) <= 0 {
					ok, want = true, t.Int64()
				}
			}
			c.Rec("seek", fmt.Sprintf("Seek(%d,%d)", off, whence), fmt.Sprintf("=%d,%v", got, err))
			c.Mix(uint64(off) ^ uint64(whence)<<60)
			if !ok {
				c.NonTrivial()
				if err == nil {
					c.Violate("model", "seek-out-of-range-accepted", "Seek(%d, whence %d) at position %d of %d bytes succeeded (returned %d); the model rejects it", off, whence, pos, size, got)
					return
				}
			} else {
				if err != nil {
					c.Violate("model", "seek-in-range-rejected", "Seek(%d, whence %d) at position %d of %d bytes failed: %v; the model moves to %d", off, whence, pos, size, err, want)
					return
				}
				if got != want {
					c.Violate("model", "seek-result", "Seek(%d, whence %d) at position %d of %d bytes returned %d; the model says %d", off, whence, pos, size, got, want)
					return
				}
				pos = want
			}
			// position check through the API itself
			cur, err := rs.Seek(0, io.SeekCurrent)
			if err != nil || cur != pos {
				c.Violate("model", "seek-position", "after Seek(%d, whence %d) the position is %d (err %v); the model says %d (a failed Seek must leave it unchanged)", off, whence, cur, err, pos)
				return
			}
		} else {
			l := r.IntN(12)
			buf := make([]byte, l)
			before := stub.calls
			n, err := rs.Read(buf)
			c.Count("seek_ops", 1)
			c.Rec("seek", fmt.Sprintf("Read(%d)", l), fmt.Sprintf("=%d,%v", n, err))
			c.Mix(uint64(l)<<8 ^ uint64(n))
			if stub.calls != before+1 {
				c.Violate("model", "seek-read-calls", "Read made %d ReadAt calls", stub.calls-before)
				return
			}
			if n != stub.lastN || err != stub.lastE {
				c.Violate("model", "seek-read-result", "Read returned (%d,%v) but the wrapped ReadAt returned (%d,%v)", n, err, stub.lastN, stub.lastE)
				return
			}
			if n < l {
				c.NonTrivial()
			}
			if n < 0 || pos+int64(n) > int64(size) || !bytes.Equal(buf[:n], data[pos:pos+int64(n)]) {
				c.Violate("model", "seek-read-data", "Read at model position %d returned %d bytes %x, want data[%d:%d]", pos, n, buf[:max(n, 0)], pos, pos+int64(n))
				return
			}
			pos += int64(n)
			cur, err2 := rs.Seek(0, io.SeekCurrent)
			if err2 != nil || cur != pos {
				c.Violate("model", "seek-position", "after Read of %d bytes the position is %d (err %v); the model says %d", n, cur, err2, pos)
				return
			}
		}
	}
}

// ---------------------------------------------------------------- iosizer

type scriptedStream struct {
	r     *rand.Rand
	calls int
	sum   uint64
}

func (s *scriptedStream) step(p []byte) (int, error) {
	s.calls++
	n := 0
	if len(p) > 0 {
		switch s.r.IntN(4) {
		case 0:
			n = len(p)
		case 1:
			n = s.r.IntN(len(p) + 1)
		case 2:
			n = 0
		default:
			n = 1 + s.r.IntN(len(p))
		}
	}
	var err error
	switch s.r.IntN(6) {
	case 0:
		err = io.EOF
	case 1:
		err = errStub
	}
	if n > 0 {
		s.sum += uint64(n)
	}
	return n, err
}

func (s *scriptedStream) Read(p []byte) (int, error)  { return s.step(p) }
func (s *scriptedStream) Write(p []byte) (int, error) { return s.step(p) }

func sizerCase(c *mon.Case) {
	r := c.Rng
	rd := &scriptedStream{r: r}
	wr := &scriptedStream{r: r}
	var ird io.Reader = rd
	var iwr io.Writer = wr
	nilR, nilW := r.IntN(8) == 0, r.IntN(8) == 0
	if nilR {
		ird = nil
	}
	if nilW {
		iwr = nil
	}
	s := iosizer.NewSizeReadWriter(ird, iwr)
	var model uint64
	for i := 0; i < 5+r.IntN(30); i++ {
		l := r.IntN(20)
		buf := make([]byte, l)
		var n int
		var err error
		isRead := r.IntN(2) == 0
		if isRead {
			n, err = s.Read(buf)
			if nilR && (n != 0 || err != io.EOF) {
				c.Violate("model", "sizer-nil", "Read with nil reader returned (%d,%v)", n, err)
				return
			}
		} else {
			n, err = s.Write(buf)
			if nilW && (n != 0 || err != io.EOF) {
				c.Violate("model", "sizer-nil", "Write with nil writer returned (%d,%v)", n, err)
				return
			}
		}
		c.Count("sizer_ops", 1)
		if n > 0 {
			model += uint64(n)
		}
		if n < l || err != nil {
			c.NonTrivial()
		}
		c.Rec("sizer", map[bool]string{true: "Read", false: "Write"}[isRead], fmt.Sprintf("len %d -> %d,%v", l, n, err))
		c.Mix(uint64(l)<<16 ^ uint64(n)<<1 ^ b2u(isRead))
		if got := s.TotalSize(); got != model {
			c.Violate("model", "sizer-total", "TotalSize() = %d after a call that returned (%d,%v); the sum of returned counts is %d", got, n, err, model)
			return
		}
	}
	if !nilR && !nilW && model != rd.sum+wr.sum {
		c.Violate("model", "sizer-passthrough", "returned counts sum to %d but the wrapped streams returned %d", model, rd.sum+wr.sum)
	}
}

func b2u(b bool) uint64 {
	if b {
		return 1
	}
	return 0
}

// ---------------------------------------------------------------- iocloser

func closerCase(c *mon.Case) {
	r := c.Rng
	isReader := r.IntN(2) == 0
	stream := &scriptedStream{r: r}
	closeCalls := 0
	var closeErr error
	if r.IntN(3) == 0 {
		closeErr = errors.New("close failed")
	}
	closeFn := func() error { closeCalls++; return closeErr }
	nilClose := r.IntN(6) == 0
	if nilClose {
		closeFn = nil
	}
	var rc *iocloser.ReadCloser
	var wc *iocloser.WriteCloser
	if isReader {
		rc = iocloser.NewReadCloser(stream, closeFn)
	} else {
		wc = iocloser.NewWriteCloser(stream, closeFn)
	}
	closed := false
	for i := 0; i < 4+r.IntN(14); i++ {
		if r.IntN(4) == 0 {
			var err error
			if isReader {
				err = rc.Close()
			} else {
				err = wc.Close()
			}
			c.Count("closer_ops", 1)
			c.Rec("closer", "Close", fmt.Sprint(err))
			c.Mix(7)
			wantErr := closeErr
			if closed || nilClose {
				wantErr = nil
			}
			if err != wantErr {
				c.Violate("model", "closer-close-result", "Close #%d returned %v, want %v", i, err, wantErr)
				return
			}
			closed = true
			want := 1
			if nilClose {
				want = 0
			}
			if closeCalls != want {
				c.Violate("model", "closer-close-count", "close function ran %d times after %s Close calls (close error: %v)", closeCalls, "one or more", closeErr)
				return
			}
			continue
		}
		l := r.IntN(16)
		buf := make([]byte, l)
		before := stream.calls
		var n int
		var err error
		if isReader {
			n, err = rc.Read(buf)
		} else {
			n, err = wc.Write(buf)
		}
		c.Count("closer_ops", 1)
		c.Rec("closer", "io", fmt.Sprintf("len %d -> %d,%v closed=%v", l, n, err, closed))
		c.Mix(uint64(l)<<8 ^ uint64(n) ^ b2u(closed)<<40)
		if closed {
			c.NonTrivial()
			if stream.calls != before {
				c.Violate("model", "closer-touch-after-close", "a call after Close reached the wrapped stream")
				return
			}
			if n != 0 || err != io.EOF {
				c.Violate("model", "closer-eof-after-close", "a call after Close returned (%d,%v), want (0,EOF)", n, err)
				return
			}
		} else if stream.calls != before+1 {
			c.Violate("model", "closer-passthrough", "a call before Close made %d calls to the wrapped stream", stream.calls-before)
			return
		}
	}
}

// countingStream stamps entries of the wrapped stream for the concurrent closer case.
type countingStream struct {
	c        *mon.Case
	entries  atomic.Int64
	lastEnt  atomic.Int64
	inflight atomic.Int64
}

func (s *countingStream) Read(p []byte) (int, error) {
	s.inflight.Add(1)
	s.lastEnt.Store(s.c.Stamp())
	s.entries.Add(1)
	for i := 0; i < 50; i++ {
		spinSink2.Add(1)
	}
	s.inflight.Add(-1)
	return len(p), nil
}
func (s *countingStream) Write(p []byte) (int, error) { return s.Read(p) }

var spinSink2 atomic.Int64

func closerConcurrentCase(c *mon.Case) {
	r := c.Rng
	st := &countingStream{c: c}
	var closeCalls atomic.Int64
	rc := iocloser.NewReadCloser(st, func() error { closeCalls.Add(1); return nil })
	wc := iocloser.NewWriteCloser(st, func() error { closeCalls.Add(1); return nil })
	useW := r.IntN(2) == 0
	var closedAt atomic.Int64
	nr := 2 + r.IntN(3)
	var lateTouch atomic.Int64
	for i := 0; i < nr; i++ {
		c.Go("reader", func() {
			buf := make([]byte, 4)
			for j := 0; j < 200; j++ {
				callStamp := c.Stamp()
				ca := closedAt.Load()
				before := st.entries.Load()
				var n int
				var err error
				if useW {
					n, err = wc.Write(buf)
				} else {
					n, err = rc.Read(buf)
				}
				if ca != 0 && callStamp > ca {
					// the call began after Close had returned
					if n != 0 || err != io.EOF {
						c.Violate("model", "closer-eof-after-close", "call begun after Close returned got (%d,%v)", n, err)
						return
					}
					_ = before
				}
				if err == io.EOF && j > 20 {
					return
				}
			}
		})
	}
	c.Go("closer", func() {
		for i := 0; i < r.IntN(200); i++ {
			spinSink2.Add(1)
		}
		for k := 0; k < 2; k++ {
			if useW {
				_ = wc.Close()
			} else {
				_ = rc.Close()
			}
			if k == 0 {
				if st.inflight.Load() != 0 {
					lateTouch.Add(1)
				}
				closedAt.Store(c.Stamp())
			}
		}
	})
	if !c.WaitActors(10 * time.Second) {
		c.Inconclusive("actors did not finish")
		return
	}
	c.Count("closer_ops", 1)
	c.NonTrivial()
	c.Rec("closer", "concurrent", map[string]any{"entries": st.entries.Load(), "closedAt": closedAt.Load(), "lastEntry": st.lastEnt.Load()})
	c.Mix(uint64(st.entries.Load()))
	if closeCalls.Load() != 1 {
		c.Violate("model", "closer-close-count", "close function ran %d times with Close called twice concurrently with I/O", closeCalls.Load())
	}
	if st.lastEnt.Load() > closedAt.Load() {
		c.Violate("model", "closer-touch-after-close", "the wrapped stream was entered (stamp %d) after Close had returned (stamp %d)", st.lastEnt.Load(), closedAt.Load())
	}
	if lateTouch.Load() != 0 {
		c.Violate("model", "closer-touch-after-close", "a wrapped stream call was still in flight when Close returned")
	}
}

// ---------------------------------------------------------------- ioproxy

type countedConn struct {
	net.Conn
	closes atomic.Int64
}

func (c *countedConn) Close() error {
	c.closes.Add(1)
	return c.Conn.Close()
}

func proxyCase(c *mon.Case) {
	r := c.Rng
	a, s1raw := net.Pipe()
	s2raw, b := net.Pipe()
	s1, s2 := &countedConn{Conn: s1raw}, &countedConn{Conn: s2raw}
	var cbCount, cbBeforeClose atomic.Int64
	ioproxy.ProxyStreams(s1, s2, func() {
		cbCount.Add(1)
		// a pump closes both streams before it reports: at every callback both have been closed
		if s1.closes.Load() == 0 || s2.closes.Load() == 0 {
			cbBeforeClose.Add(1)
		}
	})

	mk := func(n int) []byte {
		d := make([]byte, n)
		for i := range d {
			d[i] = byte(r.UintN(256))
		}
		return d
	}
	sizes := []int{0, 1, 100, 8191, 8192, 8193, 20000}
	dAB := mk(sizes[r.IntN(len(sizes))] + r.IntN(50))
	dBA := mk(sizes[r.IntN(len(sizes))] + r.IntN(50))
	chunksAB := splitChunks(r, len(dAB))
	chunksBA := splitChunks(r, len(dBA))
	closer := r.IntN(2) // which client closes first
	var gotAB, gotBA []byte
	var mu sync.Mutex
	send := func(conn net.Conn, d []byte, chunks []int) {
		off := 0
		for _, k := range chunks {
			if _, err := conn.Write(d[off : off+k]); err != nil {
				c.Violate("model", "proxy-write", "client write failed early: %v", err)
				return
			}
			off += k
		}
	}
	recv := func(conn net.Conn, want int, dst *[]byte) {
		buf := make([]byte, 3000)
		var got []byte
		for len(got) < want {
			n, err := conn.Read(buf)
			got = append(got, buf[:n]...)
			if err != nil {
				break
			}
		}
		mu.Lock()
		*dst = got
		mu.Unlock()
	}
	var wg sync.WaitGroup
	wg.Add(4)
	go func() { defer wg.Done(); send(a, dAB, chunksAB) }()
	go func() { defer wg.Done(); send(b, dBA, chunksBA) }()
	go func() { defer wg.Done(); recv(b, len(dAB), &gotAB) }()
	go func() { defer wg.Done(); recv(a, len(dBA), &gotBA) }()
	done := make(chan struct{})
	go func() { wg.Wait(); close(done) }()
	select {
	case <-done:
	case <-time.After(10 * time.Second):
		c.Inconclusive("proxy transfer did not finish")
		_ = a.Close()
		_ = b.Close()
		return
	}
	c.Count("proxy_bytes", int64(len(dAB)+len(dBA)))
	c.Rec("proxy", "transfer", map[string]any{"a->b": len(dAB), "b->a": len(dBA), "chunksAB": len(chunksAB), "chunksBA": len(chunksBA), "closer": closer})
	c.Mix(uint64(len(dAB))<<20 ^ uint64(len(dBA)) ^ uint64(len(chunksAB))<<50)
	if len(dAB) > 8192 || len(dBA) > 8192 {
		c.NonTrivial()
	}
	if !bytes.Equal(gotAB, dAB) {
		c.Violate("model", "proxy-data", "bytes a->b differ: sent %d got %d (first difference at %d)", len(dAB), len(gotAB), firstDiff(gotAB, dAB))
		return
	}
	if !bytes.Equal(gotBA, dBA) {
		c.Violate("model", "proxy-data", "bytes b->a differ: sent %d got %d (first difference at %d)", len(dBA), len(gotBA), firstDiff(gotBA, dBA))
		return
	}
	// close one client side: the other client must see EOF, both proxied sides closed, callback twice
	first, other := a, b
	if closer == 1 {
		first, other = b, a
	}
	if r.IntN(2) == 0 {
		// both peers hang up at the same moment: both pumps finish on their own
		go func() { _ = other.Close() }()
	}
	_ = first.Close()
	eofCh := make(chan error, 1)
	go func() {
		buf := make([]byte, 16)
		_ = other.SetReadDeadline(time.Now().Add(10 * time.Second))
		_, err := other.Read(buf)
		eofCh <- err
	}()
	err := <-eofCh
	if err != nil && errors.Is(err, io.ErrClosedPipe) {
		err = io.EOF // we closed this end ourselves in the simultaneous-hang-up variant
	}
	if err != io.EOF {
		if ne, ok := err.(net.Error); ok && ne.Timeout() {
			c.Violate("model", "proxy-close-propagation", "after one side closed, the other side was not closed (read timed out)")
		} else {
			c.Violate("model", "proxy-close-propagation", "after one side closed, the other side read returned %v, want EOF", err)
		}
		_ = other.Close()
		return
	}
	if !mon.Quiesce(5 * time.Second) {
		c.Inconclusive("no quiescence after close")
		return
	}
	if cbBeforeClose.Load() != 0 {
		c.Violate("model", "proxy-callback-before-close", "the callback was called %d time(s) while a proxied stream had not been closed yet (s1 closed %d times, s2 %d times at the end)", cbBeforeClose.Load(), s1.closes.Load(), s2.closes.Load())
	}
	if cbCount.Load() != 2 {
		c.Violate("model", "proxy-callback-count", "callback ran %d times at quiescence, want exactly 2", cbCount.Load())
	}
	if s1.closes.Load() == 0 || s2.closes.Load() == 0 {
		c.Violate("model", "proxy-close-both", "proxied streams closed: s1 %d times, s2 %d times; both must be closed", s1.closes.Load(), s2.closes.Load())
	}
	_ = other.Close()
}

func firstDiff(a, b []byte) int {
	for i := 0; i < len(a) && i < len(b); i++ {
		if a[i] != b[i] {
			return i
		}
	}
	return min(len(a), len(b))
}

func splitChunks(r *rand.Rand, n int) []int {
	var out []int
	for n > 0 {
		k := 1 + r.IntN(min(n, 9000))
		if r.IntN(3) == 0 {
			k = 1 + r.IntN(min(n, 17))
		}
		out = append(out, k)
		n -= k
	}
	return out
}

// ---------------------------------------------------------------- unique

type uval struct {
	Key   int
	Class int
	Ver   int
}

type unote struct {
	k              int
	v              uval
	added, removed bool
}

func uniqueCase(c *mon.Case) {
	r := c.Rng
	nkeys := 1 + r.IntN(5)
	ver := 0
	mkv := func() uval {
		ver++
		return uval{Key: r.IntN(nkeys), Class: r.IntN(3), Ver: ver}
	}
	cmp := func(k int, a, b uval) bool { return a.Class == b.Class }
	var notes []unote
	changed := func(k int, v uval, added, removed bool) {
		notes = append(notes, unote{k, v, added, removed})
	}
	useMap := r.IntN(2) == 0
	var initial []uval
	for i := 0; i < r.IntN(4); i++ {
		initial = append(initial, mkv())
	}
	model := map[int]uval{}
	var kl *unique.KeyedList[int, uval]
	var km *unique.KeyedMap[int, uval]
	if useMap {
		im := map[int]uval{}
		for _, v := range initial {
			im[v.Key] = v
		}
		km = unique.NewKeyedMap(cmp, changed, im)
		for k, v := range im {
			model[k] = v
		}
	} else {
		kl = unique.NewKeyedList(func(v uval) int { return v.Key }, cmp, changed, initial)
		for _, v := range initial {
			model[v.Key] = v
		}
	}
	check := func(op string) bool {
		var keys []int
		var vals []uval
		if useMap {
			keys, vals = km.GetKeys(), km.GetValues()
		} else {
			keys, vals = kl.GetKeys(), kl.GetValues()
		}
		got := map[int]uval{}
		for _, v := range vals {
			if _, dup := got[v.Key]; dup {
				c.Violate("model", "unique-duplicate-key", "after %s two values are stored for key %d", op, v.Key)
				return false
			}
			got[v.Key] = v
		}
		sort.Ints(keys)
		if len(keys) != len(got) {
			c.Violate("model", "unique-keys-values", "after %s GetKeys has %d entries, GetValues %d", op, len(keys), len(got))
			return false
		}
		for _, k := range keys {
			if _, ok := got[k]; !ok {
				c.Violate("model", "unique-keys-values", "after %s key %d is listed without a value", op, k)
				return false
			}
		}
		if len(got) != len(model) {
			c.Violate("model", "unique-contents", "after %s contents are %v, the model holds %v", op, got, model)
			return false
		}
		for k, v := range model {
			if got[k] != v {
				c.Violate("model", "unique-contents", "after %s key %d holds %v, the model holds %v", op, k, got[k], v)
				return false
			}
		}
		return true
	}
	if !check("construction") {
		return
	}
	for i := 0; i < 4+r.IntN(14); i++ {
		prev := map[int]uval{}
		for k, v := range model {
			prev[k] = v
		}
		notes = notes[:0]
		nv := r.IntN(5)
		vals := make([]uval, nv)
		dup := false
		seen := map[int]bool{}
		for j := range vals {
			vals[j] = mkv()
			if j > 0 && r.IntN(4) == 0 {
				// duplicate key inside one call, sometimes equal class, sometimes not
				vals[j].Key = vals[j-1].Key
			}
			if seen[vals[j].Key] {
				dup = true
			}
			seen[vals[j].Key] = true
		}
		if useMap {
			dup = false
		}
		apply := func(v uval) {
			if ex, ok := model[v.Key]; ok {
				if !cmp(v.Key, v, ex) {
					model[v.Key] = v
				}
			} else {
				model[v.Key] = v
			}
		}
		var op string
		kind := r.IntN(4)
		if useMap && kind == 2 {
			kind = 3
		}
		switch kind {
		case 0:
			op = fmt.Sprintf("SetValues(%v)", vals)
			if useMap {
				m := map[int]uval{}
				for _, v := range vals {
					m[v.Key] = v
				}
				km.SetValues(m)
				for _, v := range m {
					apply(v)
				}
				for k := range model {
					if _, ok := m[k]; !ok {
						delete(model, k)
					}
				}
			} else {
				kl.SetValues(vals...)
				for _, v := range vals {
					apply(v)
				}
				for k := range model {
					if !seen[k] {
						delete(model, k)
					}
				}
			}
		case 1:
			op = fmt.Sprintf("AppendValues(%v)", vals)
			if useMap {
				m := map[int]uval{}
				for _, v := range vals {
					m[v.Key] = v
				}
				km.AppendValues(m)
				for _, v := range m {
					apply(v)
				}
			} else {
				kl.AppendValues(vals...)
				for _, v := range vals {
					apply(v)
				}
			}
		case 2:
			op = fmt.Sprintf("RemoveValues(%v)", vals)
			kl.RemoveValues(vals...)
			for _, v := range vals {
				delete(model, v.Key)
			}
		default:
			keys := make([]int, nv)
			for j := range keys {
				keys[j] = r.IntN(nkeys + 1)
				if j > 0 && r.IntN(4) == 0 {
					keys[j] = keys[j-1]
					dup = true
				}
			}
			op = fmt.Sprintf("RemoveKeys(%v)", keys)
			if useMap {
				km.RemoveKeys(keys...)
			} else {
				kl.RemoveKeys(keys...)
			}
			for _, k := range keys {
				delete(model, k)
			}
		}
		c.Count("unique_ops", 1)
		if dup {
			c.NonTrivial()
		}
		c.Rec("unique", op, len(notes))
		c.Mix(mon.HashBytes([]byte(op)))
		if !check(op) {
			return
		}
		// replay the notifications on the previous contents
		for _, n := range notes {
			_, present := prev[n.k]
			switch {
			case n.added && n.removed:
				c.Violate("model", "unique-notification", "%s: notification with added and removed both set", op)
				return
			case n.added:
				if present {
					c.Violate("model", "unique-notification-added-present", "%s: 'added' notification for key %d which was already present (%v)", op, n.k, notes)
					return
				}
				prev[n.k] = n.v
			case n.removed:
				if !present {
					c.Violate("model", "unique-notification-removed-absent", "%s: 'removed' notification for key %d which was not present (%v)", op, n.k, notes)
					return
				}
				delete(prev, n.k)
			default:
				if !present {
					c.Violate("model", "unique-notification-changed-absent", "%s: 'changed' notification for key %d which was not present (%v)", op, n.k, notes)
					return
				}
				prev[n.k] = n.v
			}
			if n.v.Key != n.k {
				c.Violate("model", "unique-notification", "%s: notification key %d carries a value of key %d", op, n.k, n.v.Key)
				return
			}
		}
		if len(prev) != len(model) {
			c.Violate("model", "unique-replay", "%s: notifications %v replayed on the previous contents give %v, contents are %v", op, notes, prev, model)
			return
		}
		for k, v := range model {
			if prev[k] != v {
				c.Violate("model", "unique-replay", "%s: notifications %v replayed on the previous contents give %v for key %d, contents hold %v", op, notes, prev[k], k, v)
				return
			}
		}
	}
}

// scriptSrc hands out scripted chunks; the last one comes together with io.EOF (or another error), as io.Reader allows.
type scriptSrc struct {
	mu     sync.Mutex
	chunks [][]byte
	endErr error
	closed atomic.Int64
}

func (s *scriptSrc) Read(p []byte) (int, error) {
	s.mu.Lock()
	defer s.mu.Unlock()
	if len(s.chunks) == 0 {
		return 0, s.endErr
	}
	n := copy(p, s.chunks[0])
	if n < len(s.chunks[0]) {
		s.chunks[0] = s.chunks[0][n:]
		return n, nil
	}
	s.chunks = s.chunks[1:]
	if len(s.chunks) == 0 {
		return n, s.endErr
	}
	return n, nil
}
func (s *scriptSrc) Write(p []byte) (int, error) { return len(p), nil }
func (s *scriptSrc) Close() error                { s.closed.Add(1); return nil }

// sinkDst collects what is written to it; its Read blocks until it is closed.
type sinkDst struct {
	mu     sync.Mutex
	got    []byte
	done   chan struct{}
	once   sync.Once
	closed atomic.Int64
}

func (d *sinkDst) Read(p []byte) (int, error) { <-d.done; return 0, io.EOF }
func (d *sinkDst) Write(p []byte) (int, error) {
	d.mu.Lock()
	d.got = append(d.got, p...)
	d.mu.Unlock()
	return len(p), nil
}
func (d *sinkDst) Close() error { d.closed.Add(1); d.once.Do(func() { close(d.done) }); return nil }

// proxyDataErrCase: a stream whose final Read returns data together with its error; every byte still arrives.
func proxyDataErrCase(c *mon.Case) {
	r := c.Rng
	n := 1 + r.IntN(6)
	var all []byte
	src := &scriptSrc{endErr: io.EOF}
	if r.IntN(3) == 0 {
		src.endErr = errors.New("stream reset by peer")
	}
	for i := 0; i < n; i++ {
		ch := make([]byte, 1+r.IntN(700))
		for j := range ch {
			ch[j] = byte(r.UintN(256))
		}
		src.chunks = append(src.chunks, ch)
		all = append(all, ch...)
	}
	dst := &sinkDst{done: make(chan struct{})}
	var cbs atomic.Int64
	done := make(chan struct{})
	ioproxy.ProxyStreams(src, dst, func() {
		if cbs.Add(1) == 2 {
			close(done)
		}
	})
	select {
	case <-done:
	case <-time.After(10 * time.Second):
		c.Inconclusive("proxy did not finish")
		dst.Close()
		return
	}
	c.Count("proxy_bytes", int64(len(all)))
	c.Count("proxy_data_with_error_cases", 1)
	c.NonTrivial()
	c.Mix(uint64(len(all))<<8 | uint64(n))
	dst.mu.Lock()
	got := append([]byte(nil), dst.got...)
	dst.mu.Unlock()
	if !bytes.Equal(got, all) {
		c.Violate("model", "proxy-data", "the source's last Read returned its final bytes together with %v; the other side received %d of %d bytes", src.endErr, len(got), len(all))
	}
	if src.closed.Load() == 0 || dst.closed.Load() == 0 {
		c.Violate("model", "proxy-close", "after both callbacks the streams were closed %d and %d times", src.closed.Load(), dst.closed.Load())
	}
}
