package worlds

import (
	"fmt"
	"runtime"
	"sync"
	"sync/atomic"
	"time"

	"github.com/anishathalye/porcupine"
	"github.com/aperturerobotics/util/cqueue"
	"github.com/aperturerobotics/util/linkedlist"
	"github.com/aperturerobotics/util/verifhook"

	"verifharness/mon"
)

func init() {
	Registry["C12"] = Spec{
		Run: runC12, Workers: 16, GOMAXPROCS: 4,
		QuickTimeout: 5 * time.Minute, ThoroughTimeout: 30 * time.Minute,
		QuickFloor: 300, ThoroughFloor: 5000,
		RequiredCounters: []string{"lifo_histories_linearizable", "deque_histories_linearizable", "lifo_cas_retries", "conservation_values"},
		Rule: "each case is one concurrent history (2-4 clients x 2-5 operations (LIFO) / 2-5 x 2-6 (deque), unique non-zero values, call/return stamps from one logical clock) on a fresh AtomicLIFO or LinkedList, checked by porcupine against a sequential stack / deque model, " +
			"or one large conservation run (multiset pushed = popped + drained, no duplicates), or a gated template holding one client between its top load and its compare-and-swap; " +
			"non-trivial = at least one pair of operations overlapped by stamps (for conservation runs: at least one CAS retry or 2 clients); distinct = distinct orders of call/return events",
		Assumptions: append([]string{"porcupine v1.3.0 decides linearizability of each recorded history (5 s timeout => inconclusive)"}, commonAssumptions...),
	}
}

type sqIn struct {
	Op  string // push pushfront pop peek peektail isempty reset
	Val int
}

type sqOut struct {
	Val int
	Ok  bool
}

func copyPush(s []int, v int) []int {
	n := make([]int, len(s)+1)
	copy(n, s)
	n[len(s)] = v
	return n
}

func sliceEq(a, b interface{}) bool {
	x, y := a.([]int), b.([]int)
	if len(x) != len(y) {
		return false
	}
	for i := range x {
		if x[i] != y[i] {
			return false
		}
	}
	return true
}

func sliceHash(a interface{}) uint64 {
	h := uint64(1469598103934665603)
	for _, v := range a.([]int) {
		h = (h ^ uint64(v)) * 1099511628211
	}
	return h
}

// sequential LIFO: Pop returns 0 exactly when empty
var lifoModel = porcupine.Model{
	Init: func() interface{} { return []int{} },
	Step: func(st, in, out interface{}) (bool, interface{}) {
		s, i, o := st.([]int), in.(sqIn), out.(sqOut)
		switch i.Op {
		case "push":
			return true, copyPush(s, i.Val)
		case "pop":
			if len(s) == 0 {
				return o.Val == 0, s
			}
			return o.Val == s[len(s)-1], s[: len(s)-1 : len(s)-1]
		}
		return false, s
	},
	Equal: sliceEq,
	Hash:  sliceHash,
	DescribeOperation: func(in, out interface{}) string {
		return fmt.Sprintf("%v -> %v", in, out)
	},
}

// sequential deque: head = index 0
var dequeModel = porcupine.Model{
	Init: func() interface{} { return []int{} },
	Step: func(st, in, out interface{}) (bool, interface{}) {
		s, i, o := st.([]int), in.(sqIn), out.(sqOut)
		switch i.Op {
		case "push":
			return true, copyPush(s, i.Val)
		case "pushfront":
			n := make([]int, len(s)+1)
			n[0] = i.Val
			copy(n[1:], s)
			return true, n
		case "pop":
			if len(s) == 0 {
				return !o.Ok && o.Val == 0, s
			}
			return o.Ok && o.Val == s[0], append([]int{}, s[1:]...)
		case "peek":
			if len(s) == 0 {
				return !o.Ok && o.Val == 0, s
			}
			return o.Ok && o.Val == s[0], s
		case "peektail":
			if len(s) == 0 {
				return !o.Ok && o.Val == 0, s
			}
			return o.Ok && o.Val == s[len(s)-1], s
		case "isempty":
			return o.Ok == (len(s) == 0), s
		case "reset":
			return true, []int{}
		}
		return false, s
	},
	Equal: sliceEq,
	Hash:  sliceHash,
	DescribeOperation: func(in, out interface{}) string {
		return fmt.Sprintf("%v -> %v", in, out)
	},
}

func runC12(w *mon.Worker) {
	mon.SetMaxSleep(100 * time.Microsecond)
	mon.SetProb(0.35, verifhook.LifoPushCAS, verifhook.LifoPopCAS)
	nl := w.Share(w.Scale(6000, 120000))
	for i := 0; i < nl; i++ {
		w.Case("lifo-history", nil, lifoHistoryCase)
	}
	for i := 0; i < w.Share(w.Scale(6000, 120000)); i++ {
		w.Case("deque-history", nil, dequeHistoryCase)
	}
	for i := 0; i < w.Share(w.Scale(64, 1500)); i++ {
		w.Case("lifo-gated", nil, lifoGatedCase)
	}
	mon.SetProb(0.02, verifhook.LifoPushCAS, verifhook.LifoPopCAS)
	for i := 0; i < w.Share(w.Scale(32, 400)); i++ {
		w.Case("lifo-conservation", nil, lifoConservationCase)
	}
	for i := 0; i < w.Share(w.Scale(32, 400)); i++ {
		w.Case("deque-conservation", nil, dequeConservationCase)
	}
	mon.ClearProb()
	for i := 0; i < w.Share(w.Scale(32, 800)); i++ {
		w.Case("lifo-last-element", nil, lifoLastElementCase)
	}
	for i := 0; i < w.Share(w.Scale(64, 1600)); i++ {
		w.Case("deque-always-empty", nil, dequeAlwaysEmptyCase)
		w.Case("deque-front-vs-back", nil, dequeFrontBackCase)
	}
	mon.ClearProb()
}

type histRec struct {
	mu  sync.Mutex
	ops []porcupine.Operation
}

func (h *histRec) add(op porcupine.Operation) {
	h.mu.Lock()
	h.ops = append(h.ops, op)
	h.mu.Unlock()
}

// overlapping reports whether any two operations overlap in time.
func overlapping(ops []porcupine.Operation) bool {
	for i := range ops {
		for j := i + 1; j < len(ops); j++ {
			if ops[i].Call < ops[j].Return && ops[j].Call < ops[i].Return {
				return true
			}
		}
	}
	return false
}

func checkHistory(c *mon.Case, what string, model porcupine.Model, ops []porcupine.Operation, okCounter string) {
	if overlapping(ops) {
		c.NonTrivial()
	}
	res, info := porcupine.CheckOperationsVerbose(model, ops, 5*time.Second)
	switch res {
	case porcupine.Ok:
		c.Count(okCounter, 1)
	case porcupine.Unknown:
		c.Inconclusive("porcupine timed out")
	case porcupine.Illegal:
		_ = info
		s := ""
		for _, op := range ops {
			s += fmt.Sprintf("\n  client %d [%d,%d] %v -> %v", op.ClientId, op.Call, op.Return, op.Input, op.Output)
		}
		c.Violate("linearizability", what+"-not-linearizable", "history of %d operations has no %s linearization respecting real-time order:%s", len(ops), what, s)
	}
}

func lifoHistoryCase(c *mon.Case) {
	r := c.Rng
	nclients := 2 + r.IntN(3)
	nops := 2 + r.IntN(4)
	popBias := r.IntN(3) // 0 push-heavy, 1 even, 2 pop-heavy
	var q cqueue.AtomicLIFO[int]
	h := &histRec{}
	start := make(chan struct{})
	before := mon.Hits(verifhook.LifoPushCAS) + mon.Hits(verifhook.LifoPopCAS)
	var emptyPops atomic.Int64
	for cl := 0; cl < nclients; cl++ {
		cl := cl
		seq := make([]bool, nops) // true = pop
		for i := range seq {
			seq[i] = r.IntN(3) < popBias || (popBias == 1 && r.IntN(2) == 0)
		}
		c.Go("client", func() {
			<-start
			for i, isPop := range seq {
				if isPop {
					t0 := c.Rec(fmt.Sprint("c", cl), "call pop", nil)
					v := q.Pop()
					t1 := c.Rec(fmt.Sprint("c", cl), "ret pop", v)
					if v == 0 {
						emptyPops.Add(1)
					}
					h.add(porcupine.Operation{ClientId: cl, Input: sqIn{Op: "pop"}, Call: t0, Output: sqOut{Val: v}, Return: t1})
				} else {
					v := (cl+1)*1000 + i + 1
					t0 := c.Rec(fmt.Sprint("c", cl), "call push", v)
					q.Push(v)
					t1 := c.Rec(fmt.Sprint("c", cl), "ret push", nil)
					h.add(porcupine.Operation{ClientId: cl, Input: sqIn{Op: "push", Val: v}, Call: t0, Output: sqOut{}, Return: t1})
				}
			}
		})
	}
	close(start)
	if !c.WaitActors(20 * time.Second) {
		c.Inconclusive("clients did not finish")
		return
	}
	// drain by sequential pops, also part of the history
	for {
		t0 := c.Stamp()
		v := q.Pop()
		t1 := c.Stamp()
		h.add(porcupine.Operation{ClientId: nclients, Input: sqIn{Op: "pop"}, Call: t0, Output: sqOut{Val: v}, Return: t1})
		if v == 0 {
			break
		}
	}
	nOps := int64(len(h.ops))
	retries := mon.Hits(verifhook.LifoPushCAS) + mon.Hits(verifhook.LifoPopCAS) - before - (nOps - emptyPops.Load() - 1)
	if retries > 0 {
		c.Count("lifo_cas_retries", retries)
	}
	checkHistory(c, "lifo", lifoModel, h.ops, "lifo_histories_linearizable")
}

func dequeHistoryCase(c *mon.Case) {
	r := c.Rng
	nclients := 2 + r.IntN(4)
	nops := 2 + r.IntN(5)
	var initial []int
	for i := 0; i < r.IntN(3); i++ {
		initial = append(initial, 900+i)
	}
	l := linkedlist.NewLinkedList(initial...)
	h := &histRec{}
	// the initial elements enter the model as pushes before everything else
	for _, v := range initial {
		t0 := c.Stamp()
		t1 := c.Stamp()
		h.add(porcupine.Operation{ClientId: nclients, Input: sqIn{Op: "push", Val: v}, Call: t0, Output: sqOut{}, Return: t1})
	}
	start := make(chan struct{})
	kinds := []string{"push", "push", "pushfront", "pop", "pop", "peek", "peektail", "isempty", "reset"}
	resetHeavy := r.IntN(4) == 0
	if resetHeavy {
		// writers racing Reset; what the list says about itself afterwards is part of the history (final IsEmpty/PeekTail/Pop below)
		kinds = []string{"push", "push", "pushfront", "pop", "reset", "reset", "isempty"}
		c.Count("deque_reset_heavy_histories", 1)
	}
	for cl := 0; cl < nclients; cl++ {
		cl := cl
		seq := make([]string, nops)
		for i := range seq {
			seq[i] = kinds[r.IntN(len(kinds))]
			if seq[i] == "reset" && !resetHeavy && r.IntN(3) != 0 {
				seq[i] = "pop"
			}
		}
		c.Go("client", func() {
			<-start
			name := fmt.Sprint("c", cl)
			for i, k := range seq {
				v := (cl+1)*1000 + i + 1
				in := sqIn{Op: k}
				var out sqOut
				t0 := c.Rec(name, "call "+k, nil)
				switch k {
				case "push":
					in.Val = v
					l.Push(v)
				case "pushfront":
					in.Val = v
					l.PushFront(v)
				case "pop":
					out.Val, out.Ok = l.Pop()
				case "peek":
					out.Val, out.Ok = l.Peek()
				case "peektail":
					out.Val, out.Ok = l.PeekTail()
				case "isempty":
					out.Ok = l.IsEmpty()
				case "reset":
					l.Reset()
				}
				t1 := c.Rec(name, "ret "+k, out.Val)
				h.add(porcupine.Operation{ClientId: cl, Input: in, Call: t0, Output: out, Return: t1})
			}
		})
	}
	close(start)
	if !c.WaitActors(20 * time.Second) {
		c.Inconclusive("clients did not finish")
		return
	}
	finalEmpty := func() {
		t0 := c.Stamp()
		e := l.IsEmpty()
		t1 := c.Stamp()
		h.add(porcupine.Operation{ClientId: nclients, Input: sqIn{Op: "isempty"}, Call: t0, Output: sqOut{Ok: e}, Return: t1})
	}
	finalEmpty()
	for {
		t0 := c.Stamp()
		tv, tok := l.PeekTail()
		t1 := c.Stamp()
		h.add(porcupine.Operation{ClientId: nclients, Input: sqIn{Op: "peektail"}, Call: t0, Output: sqOut{Val: tv, Ok: tok}, Return: t1})
		t0 = c.Stamp()
		v, ok := l.Pop()
		t1 = c.Stamp()
		h.add(porcupine.Operation{ClientId: nclients, Input: sqIn{Op: "pop"}, Call: t0, Output: sqOut{Val: v, Ok: ok}, Return: t1})
		if !ok {
			break
		}
	}
	finalEmpty()
	checkHistory(c, "deque", dequeModel, h.ops, "deque_histories_linearizable")
}

// lifoGatedCase holds one client between its load of top and its compare-and-swap
// while others run complete operations, then lets it go.
func lifoGatedCase(c *mon.Case) {
	r := c.Rng
	var q cqueue.AtomicLIFO[int]
	h := &histRec{}
	rec := func(cl int, in sqIn, f func() int) {
		name := fmt.Sprint("c", cl)
		t0 := c.Rec(name, "call "+in.Op, in.Val)
		v := f()
		t1 := c.Rec(name, "ret "+in.Op, v)
		h.add(porcupine.Operation{ClientId: cl, Input: in, Call: t0, Output: sqOut{Val: v}, Return: t1})
	}
	push := func(cl, v int) { rec(cl, sqIn{Op: "push", Val: v}, func() int { q.Push(v); return 0 }) }
	pop := func(cl int) { rec(cl, sqIn{Op: "pop"}, func() int { return q.Pop() }) }
	for i := 0; i < 1+r.IntN(3); i++ {
		push(0, 10+i)
	}
	site := verifhook.LifoPopCAS
	heldIsPop := r.IntN(3) != 0
	if !heldIsPop {
		site = verifhook.LifoPushCAS
	}
	mon.ClearProb()
	g := mon.NewGate(site, nil, 1)
	c.Go("held", func() {
		if heldIsPop {
			pop(1)
		} else {
			push(1, 500)
		}
	})
	if !g.WaitArrived(5 * time.Second) {
		g.Release()
		c.Inconclusive("gated client never arrived")
		c.WaitActors(5 * time.Second)
		return
	}
	// others run while client 1 is parked between load and CAS
	for i := 0; i < 2+r.IntN(5); i++ {
		if r.IntN(2) == 0 {
			pop(2)
		} else {
			push(2, 600+i)
		}
	}
	g.Release()
	c.WaitActors(10 * time.Second)
	mon.SetProb(0.35, verifhook.LifoPushCAS, verifhook.LifoPopCAS)
	for {
		t0 := c.Stamp()
		v := q.Pop()
		t1 := c.Stamp()
		h.add(porcupine.Operation{ClientId: 3, Input: sqIn{Op: "pop"}, Call: t0, Output: sqOut{Val: v}, Return: t1})
		if v == 0 {
			break
		}
	}
	if g.TimedOut.Load() {
		c.Inconclusive("gate timed out")
		return
	}
	c.Count("lifo_gated_templates", 1)
	checkHistory(c, "lifo", lifoModel, h.ops, "lifo_histories_linearizable")
}

func lifoConservationCase(c *mon.Case) {
	r := c.Rng
	var q cqueue.AtomicLIFO[int]
	ng := 2 + r.IntN(7)
	per := 2000 + r.IntN(4000)
	popped := make([][]int, ng)
	before := mon.Hits(verifhook.LifoPushCAS) + mon.Hits(verifhook.LifoPopCAS)
	var emptyPops, opsDone atomic.Int64
	for g := 0; g < ng; g++ {
		g := g
		seed := r.Uint64()
		c.Go("worker", func() {
			x := seed | 1
			next := 1
			for next <= per {
				x ^= x << 13
				x ^= x >> 7
				x ^= x << 17
				if x%3 != 0 {
					q.Push(g*1_000_000 + next)
					next++
					opsDone.Add(1)
				} else {
					v := q.Pop()
					opsDone.Add(1)
					if v != 0 {
						popped[g] = append(popped[g], v)
					} else {
						emptyPops.Add(1)
					}
				}
			}
		})
	}
	if !c.WaitActors(25 * time.Second) {
		c.Inconclusive("workers did not finish")
		return
	}
	seen := make(map[int]int, ng*per)
	for _, p := range popped {
		for _, v := range p {
			seen[v]++
		}
	}
	drained := 0
	for {
		v := q.Pop()
		if v == 0 {
			break
		}
		drained++
		seen[v]++
	}
	retries := mon.Hits(verifhook.LifoPushCAS) + mon.Hits(verifhook.LifoPopCAS) - before - (opsDone.Load() - emptyPops.Load()) - int64(drained)
	if retries > 0 {
		c.Count("lifo_cas_retries", retries)
		c.NonTrivial()
	}
	c.Rec("conservation", "lifo", map[string]any{"goroutines": ng, "pushed": ng * per, "drained": drained, "cas_retries": retries})
	c.Mix(uint64(retries))
	for g := 0; g < ng; g++ {
		for i := 1; i <= per; i++ {
			v := g*1_000_000 + i
			switch seen[v] {
			case 1:
			case 0:
				c.Violate("conservation", "lifo-element-lost", "pushed value %d was never popped nor left in the stack (%d goroutines x %d pushes)", v, ng, per)
				return
			default:
				c.Violate("conservation", "lifo-element-duplicated", "pushed value %d was returned %d times", v, seen[v])
				return
			}
		}
	}
	if len(seen) != ng*per {
		c.Violate("conservation", "lifo-element-invented", "%d distinct values came out, %d were pushed", len(seen), ng*per)
		return
	}
	c.Count("conservation_values", int64(ng*per))
}

func dequeConservationCase(c *mon.Case) {
	r := c.Rng
	l := linkedlist.NewLinkedList[int]()
	ng := 2 + r.IntN(7)
	per := 1000 + r.IntN(3000)
	popped := make([][]int, ng)
	var peeks atomic.Int64
	defer func() { c.Count("deque_peeks_checked", peeks.Load()) }()
	for g := 0; g < ng; g++ {
		g := g
		seed := r.Uint64()
		c.Go("worker", func() {
			x := seed | 1
			next := 1
			for next <= per {
				x ^= x << 13
				x ^= x >> 7
				x ^= x << 17
				switch x % 5 {
				case 0, 1:
					l.Push(g*1_000_000 + next)
					next++
				case 2:
					l.PushFront(g*1_000_000 + next)
					next++
				case 3:
					if v, ok := l.Pop(); ok {
						popped[g] = append(popped[g], v)
					}
				default:
					// what Peek/PeekTail report as present must be an element somebody pushed (never the zero value)
					if v, ok := l.Peek(); ok && (v <= 0 || v/1_000_000 >= ng || v%1_000_000 > per) {
						c.Violate("conservation", "deque-peek-foreign-value", "Peek returned (%d, true); no such element was ever pushed", v)
					}
					if v, ok := l.PeekTail(); ok && (v <= 0 || v/1_000_000 >= ng || v%1_000_000 > per) {
						c.Violate("conservation", "deque-peek-foreign-value", "PeekTail returned (%d, true); no such element was ever pushed", v)
					}
					peeks.Add(2)
					l.IsEmpty()
				}
			}
		})
	}
	if !c.WaitActors(25 * time.Second) {
		c.Inconclusive("workers did not finish")
		return
	}
	seen := make(map[int]int, ng*per)
	for _, p := range popped {
		for _, v := range p {
			seen[v]++
		}
	}
	drained := 0
	for {
		v, ok := l.Pop()
		if !ok {
			break
		}
		drained++
		seen[v]++
	}
	if ng >= 2 {
		c.NonTrivial()
	}
	c.Rec("conservation", "deque", map[string]any{"goroutines": ng, "pushed": ng * per, "drained": drained})
	c.Mix(uint64(drained))
	for g := 0; g < ng; g++ {
		for i := 1; i <= per; i++ {
			v := g*1_000_000 + i
			switch seen[v] {
			case 1:
			case 0:
				c.Violate("conservation", "deque-element-lost", "pushed value %d was never popped nor left in the list (%d goroutines x %d pushes)", v, ng, per)
				return
			default:
				c.Violate("conservation", "deque-element-duplicated", "pushed value %d was returned %d times", v, seen[v])
				return
			}
		}
	}
	if len(seen) != ng*per {
		c.Violate("conservation", "deque-element-invented", "%d distinct values came out, %d were pushed", len(seen), ng*per)
		return
	}
	c.Count("conservation_values", int64(ng*per))
}

// lifoLastElementCase: the stack never holds more than one element (the pusher waits until its element was taken) while
// several poppers pop continuously: every element is "the last one" and is raced for. Each is popped exactly once; nobody panics.
func lifoLastElementCase(c *mon.Case) {
	r := c.Rng
	n := 1500 + r.IntN(1500)
	np := 3 + r.IntN(3)
	var q cqueue.AtomicLIFO[int]
	var taken atomic.Int64
	var stop atomic.Bool
	seen := make([]atomic.Int32, n+1)
	var wg sync.WaitGroup
	for p := 0; p < np; p++ {
		wg.Add(1)
		go func() {
			defer wg.Done()
			for !stop.Load() {
				v := q.Pop()
				if v == 0 {
					continue
				}
				if v < 0 || v > n {
					c.Violate("conservation", "lifo-foreign-element", "a Pop returned %d, which was never pushed", v)
					return
				}
				if seen[v].Add(1) != 1 {
					c.Violate("conservation", "lifo-element-duplicated", "element %d was popped twice", v)
				}
				taken.Add(1)
			}
		}()
	}
	deadline := time.Now().Add(20 * time.Second)
	for v := 1; v <= n && !c.Violated(); v++ {
		q.Push(v)
		for taken.Load() < int64(v) {
			if time.Now().After(deadline) {
				stop.Store(true)
				wg.Wait()
				if seen[v].Load() == 0 && !c.Violated() {
					c.Violate("conservation", "lifo-element-lost", "element %d was pushed onto the empty stack and %d poppers popped continuously for seconds, but nobody got it", v, np)
				}
				return
			}
			runtime.Gosched()
		}
	}
	stop.Store(true)
	wg.Wait()
	c.Count("lifo_last_element_races", int64(n))
	c.Evals(n)
	c.NonTrivial()
	c.Mix(uint64(np))
}

// dequeAlwaysEmptyCase: a list that never holds an element is empty at every instant, whatever else is going on.
func dequeAlwaysEmptyCase(c *mon.Case) {
	r := c.Rng
	l := linkedlist.NewLinkedList[int]()
	per := 2000 + r.IntN(4000)
	var stop atomic.Bool
	var workers, checkers sync.WaitGroup
	for g := 0; g < 2; g++ {
		workers.Add(1)
		go func() {
			defer workers.Done()
			for i := 0; i < per; i++ {
				if _, ok := l.Pop(); ok {
					c.Violate("conservation", "deque-foreign-element", "Pop returned an element from a list nothing was ever pushed to")
					return
				}
				l.Peek()
				l.PeekTail()
				if i%64 == 0 {
					l.Reset()
				}
			}
		}()
	}
	var checks atomic.Int64
	for g := 0; g < 2; g++ {
		checkers.Add(1)
		go func() {
			defer checkers.Done()
			for !stop.Load() {
				checks.Add(1)
				if !l.IsEmpty() {
					c.Violate("linearizability", "deque-not-linearizable", "IsEmpty returned false on a list that has never held an element (concurrent Pop/Peek/Reset calls on the empty list do not make it non-empty)")
					return
				}
			}
		}()
	}
	workers.Wait()
	stop.Store(true)
	checkers.Wait()
	c.Count("always_empty_checks", checks.Load())
	c.NonTrivial()
}

// dequeFrontBackCase: on a list with zero or one element a PushFront races a Push (or a Pop), released together by a
// spinning barrier, several thousand rounds per case. Whatever the order, PushFront(a) and Push(b) on an empty list leave
// exactly [a b]; with a Pop in the race nothing is lost or duplicated and the survivors keep front-to-back order.
func dequeFrontBackCase(c *mon.Case) {
	r := c.Rng
	rounds := 2000 + r.IntN(3000)
	withPop := r.IntN(2) == 0
	if r.IntN(3) == 0 {
		dequeTwoFrontsCase(c, rounds)
		return
	}
	for i := 0; i < rounds && !c.Violated(); i++ {
		l := linkedlist.NewLinkedList[int]()
		a, b, x := 3*i+1, 3*i+2, 3*i+3
		if withPop {
			l.Push(x)
		}
		var ready atomic.Int32
		var wg sync.WaitGroup
		var popped int
		var popOk bool
		wg.Add(2)
		go func() {
			defer wg.Done()
			ready.Add(1)
			for ready.Load() < 2 {
			}
			l.PushFront(a)
		}()
		go func() {
			defer wg.Done()
			ready.Add(1)
			for ready.Load() < 2 {
			}
			if withPop {
				popped, popOk = l.Pop()
			} else {
				l.Push(b)
			}
		}()
		wg.Wait()
		if withPop {
			l.Push(b)
		}
		var rest []int
		for {
			v, ok := l.Pop()
			if !ok {
				break
			}
			rest = append(rest, v)
			if len(rest) > 8 {
				break
			}
		}
		var want [][]int
		if !withPop {
			want = [][]int{{a, b}}
		} else if !popOk {
			c.Violate("conservation", "deque-pop-fails-on-non-empty", "round %d: Pop failed on a list that held %d throughout (a PushFront ran beside it)", i, x)
			break
		} else if popped == x {
			want = [][]int{{a, b}}
		} else if popped == a {
			want = [][]int{{x, b}}
		} else {
			c.Violate("conservation", "deque-foreign-element", "round %d: Pop returned %d; the list held %d and %d was being pushed to its front", i, popped, x, a)
			break
		}
		ok := false
		for _, w := range want {
			if fmt.Sprint(w) == fmt.Sprint(rest) {
				ok = true
			}
		}
		if !ok {
			other := fmt.Sprintf("Push(%d) on an empty list", b)
			if withPop {
				other = fmt.Sprintf("Pop()=%d on a list holding [%d], then Push(%d)", popped, x, b)
			}
			c.Violate("linearizability", "deque-not-linearizable", "round %d: PushFront(%d) beside %s: draining gives %v, every order of the two concurrent calls gives %v", i, a, other, rest, want[0])
		}
		c.Count("front_vs_back_rounds", 1)
	}
	c.NonTrivial()
}

// dequeTwoFrontsCase: two PushFront calls race on a list of zero or one element; both elements are in front of the
// old content afterwards, in one of the two orders.
func dequeTwoFrontsCase(c *mon.Case, rounds int) {
	for i := 0; i < rounds && !c.Violated(); i++ {
		l := linkedlist.NewLinkedList[int]()
		a, b, x := 3*i+1, 3*i+2, 3*i+3
		withX := i%2 == 0
		if withX {
			l.Push(x)
		}
		var ready atomic.Int32
		var wg sync.WaitGroup
		wg.Add(2)
		for _, v := range []int{a, b} {
			v := v
			go func() {
				defer wg.Done()
				ready.Add(1)
				for ready.Load() < 2 {
				}
				l.PushFront(v)
			}()
		}
		wg.Wait()
		tail, tailOk := l.PeekTail()
		var rest []int
		for len(rest) <= 8 {
			v, ok := l.Pop()
			if !ok {
				break
			}
			rest = append(rest, v)
		}
		w1, w2 := []int{a, b}, []int{b, a}
		if withX {
			w1, w2 = append(w1, x), append(w2, x)
		}
		if got := fmt.Sprint(rest); got != fmt.Sprint(w1) && got != fmt.Sprint(w2) {
			c.Violate("linearizability", "deque-not-linearizable", "round %d: PushFront(%d) beside PushFront(%d) on a list holding %v: draining gives %v, the two orders give %v and %v", i, a, b, map[bool][]int{true: {x}, false: {}}[withX], rest, w1, w2)
		} else if !tailOk || tail != rest[len(rest)-1] {
			c.Violate("linearizability", "deque-not-linearizable", "round %d: after PushFront(%d) beside PushFront(%d), PeekTail returned (%d, %v) on a list that drains as %v", i, a, b, tail, tailOk, rest)
		}
		c.Count("two_fronts_rounds", 1)
	}
	c.NonTrivial()
}
