package worlds

import (
	"context"
	"errors"
	"fmt"
	"io"
	"runtime"
	"sync"
	"sync/atomic"
	"time"

	cbackoff "github.com/cenkalti/backoff/v4"

	"github.com/aperturerobotics/util/broadcast"
	"github.com/aperturerobotics/util/ccall"
	"github.com/aperturerobotics/util/ccontainer"
	"github.com/aperturerobotics/util/conc"
	"github.com/aperturerobotics/util/cqueue"
	"github.com/aperturerobotics/util/csync"
	"github.com/aperturerobotics/util/iocloser"
	"github.com/aperturerobotics/util/iosizer"
	"github.com/aperturerobotics/util/keyed"
	"github.com/aperturerobotics/util/linkedlist"
	"github.com/aperturerobotics/util/memo"
	"github.com/aperturerobotics/util/promise"
	"github.com/aperturerobotics/util/refcount"
	"github.com/aperturerobotics/util/routine"
	"github.com/aperturerobotics/util/verifhook"

	"verifharness/mon"
)

func init() {
	Registry["C13"] = Spec{
		Run: runC13, Workers: 16, GOMAXPROCS: 4, Race: true, RaceSafeHooks: true,
		QuickTimeout: 10 * time.Minute, ThoroughTimeout: 45 * time.Minute,
		QuickFloor: 100, ThoroughFloor: 1000,
		RequiredCounters: []string{"client_programs", "method_pairs_overlapped", "behavioural_cases_under_race"},
		Rule: "the deciding oracle is the Go race detector (workers are built with -race; reports are parsed from its log files, de-duplicated by the pair of accessing functions, and count iff an accessing frame lies in a non-test file of the library). " +
			"Cases are generated client programs, one per concurrency-safe type: 2-8 goroutines call every documented method of one shared object in a seed-determined mix (documented contracts respected), with schedule-point perturbation that touches no shared memory; " +
			"each goroutine logs (method, start, end) from the monotonic clock into its own slice and the overlap matrix is computed after the join, so the measurement adds no happens-before edge. The behavioural workloads of C01-C18 and the pinned test suite are run under the detector as well; " +
			"non-trivial = a client program in which at least two different methods of one object overlapped in time; distinct = distinct (type, overlap matrix) pairs",
		Assumptions: append([]string{"the race detector only sees accesses that executed; reports vary from run to run, so the thorough tier repeats the programs with other seeds",
			"behavioural workloads record through shared harness state, which adds happens-before edges; the pure client programs do not"}, commonAssumptions...),
	}
}

// rlog is a per-goroutine log of method executions.
type rlog struct {
	m      []uint8
	t0, t1 []int64
}

func (l *rlog) do(m int, f func()) {
	a := time.Now().UnixNano()
	f()
	b := time.Now().UnixNano()
	l.m = append(l.m, uint8(m))
	l.t0 = append(l.t0, a)
	l.t1 = append(l.t1, b)
}

// raceClient describes a client program: setup returns the per-goroutine method table and a finish function.
type raceClient struct {
	name    string
	methods []string
	// build returns one closure per method (index-aligned with methods), called by many goroutines,
	// and a cleanup run after the join.
	build func(r *xorshift) (calls []func(g int, x *xorshift), cleanup func())
}

func runClient(c *mon.Case, rc raceClient) {
	r := c.Rng
	ng := 2 + r.IntN(7)
	per := 30 + r.IntN(120)
	seedX := &xorshift{x: r.Uint64() | 1}
	calls, cleanup := rc.build(seedX)
	logs := make([]*rlog, ng)
	var wg sync.WaitGroup
	start := make(chan struct{})
	for g := 0; g < ng; g++ {
		g := g
		lg := &rlog{}
		logs[g] = lg
		x := &xorshift{x: r.Uint64() | 1}
		wg.Add(1)
		go func() {
			defer wg.Done()
			<-start
			for i := 0; i < per; i++ {
				m := x.IntN(len(calls))
				lg.do(m, func() { calls[m](g, x) })
				if x.IntN(4) == 0 {
					runtime.Gosched()
				}
			}
		}()
	}
	close(start)
	done := make(chan struct{})
	go func() { wg.Wait(); close(done) }()
	select {
	case <-done:
	case <-time.After(25 * time.Second):
		c.Inconclusive("client goroutines did not finish")
		return
	}
	cleanup()
	// overlap matrix, computed after the join
	nm := len(rc.methods)
	over := make([]bool, nm*nm)
	pairs := 0
	for a := 0; a < ng; a++ {
		for b := a + 1; b < ng; b++ {
			la, lb := logs[a], logs[b]
			j := 0
			for i := range la.m {
				for j < len(lb.m) && lb.t1[j] < la.t0[i] {
					j++
				}
				for k := j; k < len(lb.m) && lb.t0[k] <= la.t1[i]; k++ {
					x, y := int(la.m[i]), int(lb.m[k])
					if !over[x*nm+y] {
						over[x*nm+y], over[y*nm+x] = true, true
						pairs++
					}
				}
			}
		}
	}
	diff := false
	h := mon.HashBytes([]byte(rc.name))
	for i, v := range over {
		if v {
			h = h*1099511628211 ^ uint64(i+1)
			if i/nm != i%nm {
				diff = true
			}
		}
	}
	c.Mix(h)
	c.Count("client_programs", 1)
	c.Count("method_pairs_overlapped", int64(pairs))
	if diff {
		c.NonTrivial()
	}
	c.Rec("client", rc.name, map[string]any{"goroutines": ng, "calls_each": per, "methods": rc.methods, "distinct_overlapping_method_pairs": pairs})
}

func runC13(w *mon.Worker) {
	mon.SetMaxSleep(60 * time.Microsecond)
	allSites := []mon.Site{verifhook.BcastEnter, verifhook.BcastExit, verifhook.BcastWaitBlock, verifhook.MutexBlock, verifhook.RWMutexBlock, verifhook.CContainerBlock,
		verifhook.RoutineExecStart, verifhook.RoutineExecCall, verifhook.RoutineExecDone, verifhook.RoutineTimer, verifhook.KeyedLock, verifhook.KeyedExecStart, verifhook.KeyedExecCall,
		verifhook.KeyedExecDone, verifhook.KeyedTimer, verifhook.RefCountLock, verifhook.RefCountResolveStart, verifhook.RefCountResolveCall, verifhook.RefCountResolveDone,
		verifhook.PromiseSetMid, verifhook.OnceLock, verifhook.MemoMid, verifhook.LifoPushCAS, verifhook.LifoPopCAS, verifhook.CcallSpawned, verifhook.ConcWorkerLock}
	mon.SetProb(0.1, allSites...)
	clients := raceClients()
	rounds := w.Scale(8, 4000)
	for round := 0; round < rounds; round++ {
		for i, rc := range clients {
			if (i+round)%4 != w.Idx%4 {
				continue
			}
			rc := rc
			w.Case("client:"+rc.name, nil, func(c *mon.Case) { runClient(c, rc) })
		}
	}
	// behavioural workloads under the detector (their own verdicts are not C13's business)
	type bw struct {
		name string
		f    func(c *mon.Case)
	}
	bws := []bw{
		{"C01", func(c *mon.Case) { c01Case(c, c.Rng.IntN(2) == 0) }},
		{"C02", func(c *mon.Case) { c02Case(c, c.Rng.IntN(2) == 0) }},
		{"C03", bcastRandomCase},
		{"C04", func(c *mon.Case) { c04BurstCase(c, c.Rng.IntN(2) == 0, c.Rng.IntN(3) == 0) }},
		{"C05", func(c *mon.Case) { c05Case(c, c.Rng.IntN(3) != 0, c.Rng.IntN(3) == 0, true) }},
		{"C06", c06ConcurrentRefCase},
		{"C07", func(c *mon.Case) { c07BurstCase(c, c.Rng.IntN(3) == 0) }},
		{"C08", func(c *mon.Case) { refcountCase(c, "C08", 0) }},
		{"C09", func(c *mon.Case) { refcountCase(c, "C09", 0) }},
		{"C10", func(c *mon.Case) { refcountCase(c, "C10", 0) }},
		{"C11a", promiseRaceCase},
		{"C11b", containerCase},
		{"C12a", lifoHistoryCase},
		{"C12b", dequeHistoryCase},
		{"C15", ccWaitersCase},
		{"C16a", onceCase},
		{"C16b", memoCase},
		{"C17", func(c *mon.Case) {
			sc := ccScript{Gate: c.Rng.IntN(3) == 0}
			for j := 0; j < 2+c.Rng.IntN(4); j++ {
				sc.Outcomes = append(sc.Outcomes, ccOutcome(c.Rng.IntN(4)))
				sc.Delays = append(sc.Delays, c.Rng.IntN(3))
			}
			ccallCase(c, sc, true)
		}},
		{"C18", concCase},
		{"C20", closerConcurrentCase},
	}
	n := w.Scale(4, 1200)
	for i := 0; i < n; i++ {
		for j, b := range bws {
			if (j+i)%4 != w.Idx%4 {
				continue
			}
			b := b
			w.Case("behavioural:"+b.name, nil, func(c *mon.Case) {
				b.f(c)
				dropped := c.DropViolations()
				c.Count("behavioural_cases_under_race", 1)
				if dropped > 0 {
					c.Count("behavioural_violations_not_attributed_to_C13", int64(dropped))
				}
			})
		}
	}
	mon.ClearProb()
}

var errRaceTok = errors.New("race-client-error")

type nopStream struct{}

func (nopStream) Read(p []byte) (int, error)  { return len(p), nil }
func (nopStream) Write(p []byte) (int, error) { return len(p), nil }

// raceClients builds the family of client programs.
func raceClients() []raceClient {
	bg := context.Background()
	short := func() (context.Context, context.CancelFunc) { return context.WithTimeout(bg, 200*time.Microsecond) }
	var out []raceClient

	out = append(out, raceClient{name: "Broadcast", methods: []string{"HoldLock+broadcast", "TryHoldLock", "HoldLockMaybeAsync", "Wait", "HoldLock+getWaitCh"},
		build: func(_ *xorshift) ([]func(int, *xorshift), func()) {
			var b broadcast.Broadcast
			gen := 0
			return []func(int, *xorshift){
				func(int, *xorshift) { b.HoldLock(func(bc func(), _ func() <-chan struct{}) { gen++; bc() }) },
				func(int, *xorshift) { b.TryHoldLock(func(bc func(), _ func() <-chan struct{}) { gen++; bc() }) },
				func(int, *xorshift) { b.HoldLockMaybeAsync(func(bc func(), _ func() <-chan struct{}) { gen++; bc() }) },
				func(_ int, x *xorshift) {
					ctx, cancel := short()
					defer cancel()
					want := 0
					_ = b.Wait(ctx, func(_ func(), _ func() <-chan struct{}) (bool, error) {
						if want == 0 {
							want = gen + 1 + x.IntN(3)
						}
						return gen >= want, nil
					})
				},
				func(int, *xorshift) {
					var ch <-chan struct{}
					b.HoldLock(func(_ func(), gw func() <-chan struct{}) { ch = gw() })
					select {
					case <-ch:
					default:
					}
				},
			}, func() { time.Sleep(time.Millisecond) }
		}})

	out = append(out, raceClient{name: "csync.Mutex", methods: []string{"Lock", "TryLock", "Lock(cancel)", "Locker"},
		build: func(_ *xorshift) ([]func(int, *xorshift), func()) {
			var m csync.Mutex
			shared := 0
			lk := m.Locker()
			return []func(int, *xorshift){
				func(int, *xorshift) {
					if rel, err := m.Lock(bg); err == nil {
						shared++
						rel()
						rel()
					}
				},
				func(int, *xorshift) {
					if rel, ok := m.TryLock(); ok {
						shared++
						rel()
					}
				},
				func(int, *xorshift) {
					ctx, cancel := short()
					defer cancel()
					if rel, err := m.Lock(ctx); err == nil {
						shared++
						runtime.Gosched()
						rel()
					}
				},
				func(int, *xorshift) { lk.Lock(); shared++; lk.Unlock() },
			}, func() {}
		}})

	out = append(out, raceClient{name: "csync.RWMutex", methods: []string{"Lock(w)", "Lock(r)", "TryLock(w)", "TryLock(r)", "Lock(cancel)", "Locker", "RLocker", "Locker()", "RLocker()"},
		build: func(s *xorshift) ([]func(int, *xorshift), func()) {
			var m csync.RWMutex
			shared := 0
			// in half of the programs nobody has asked for a locker before the goroutines start
			var wl, rl sync.Locker = &sync.Mutex{}, &sync.Mutex{}
			if s.IntN(2) == 0 {
				wl, rl = m.Locker(), m.RLocker()
			}
			return []func(int, *xorshift){
				func(int, *xorshift) {
					if rel, err := m.Lock(bg, true); err == nil {
						shared++
						rel()
					}
				},
				func(int, *xorshift) {
					if rel, err := m.Lock(bg, false); err == nil {
						_ = shared
						rel()
						rel()
					}
				},
				func(int, *xorshift) {
					if rel, ok := m.TryLock(true); ok {
						shared++
						rel()
					}
				},
				func(int, *xorshift) {
					if rel, ok := m.TryLock(false); ok {
						_ = shared
						rel()
					}
				},
				func(_ int, x *xorshift) {
					ctx, cancel := short()
					defer cancel()
					if rel, err := m.Lock(ctx, x.IntN(2) == 0); err == nil {
						runtime.Gosched()
						rel()
					}
				},
				func(int, *xorshift) { wl.Lock(); wl.Unlock() },
				func(int, *xorshift) { rl.Lock(); rl.Unlock() },
				// lockers obtained by the goroutine that uses them (the first calls of Locker/RLocker may be concurrent)
				func(int, *xorshift) { l := m.Locker(); l.Lock(); shared++; l.Unlock() },
				func(int, *xorshift) { l := m.RLocker(); l.Lock(); _ = shared; l.Unlock() },
			}, func() {}
		}})

	out = append(out, raceClient{name: "CContainer", methods: []string{"GetValue", "SetValue", "SwapValue", "WaitValue", "WaitValueChange", "WaitValueEmpty", "WaitValueWithValidator", "WatchChanges"},
		build: func(s *xorshift) ([]func(int, *xorshift), func()) {
			var ctr *ccontainer.CContainer[int]
			if s.IntN(2) == 0 {
				ctr = ccontainer.NewCContainer(0)
			} else {
				ctr = ccontainer.NewCContainerWithEqual(0, func(a, b int) bool { return a/10 == b/10 })
			}
			return []func(int, *xorshift){
				func(int, *xorshift) { _ = ctr.GetValue() },
				func(_ int, x *xorshift) { ctr.SetValue(x.IntN(40)) },
				func(_ int, x *xorshift) { ctr.SwapValue(func(v int) int { return v + x.IntN(3) }) },
				func(int, *xorshift) { ctx, cancel := short(); defer cancel(); _, _ = ctr.WaitValue(ctx, nil) },
				func(_ int, x *xorshift) {
					ctx, cancel := short()
					defer cancel()
					_, _ = ctr.WaitValueChange(ctx, x.IntN(40), nil)
				},
				func(int, *xorshift) { ctx, cancel := short(); defer cancel(); _ = ctr.WaitValueEmpty(ctx, nil) },
				func(_ int, x *xorshift) {
					ctx, cancel := short()
					defer cancel()
					errCh := make(chan error, 1)
					if x.IntN(3) == 0 {
						errCh <- errRaceTok
					}
					_, _ = ctr.WaitValueWithValidator(ctx, func(v int) (bool, error) { return v > 35, nil }, errCh)
				},
				func(int, *xorshift) {
					ctx, cancel := short()
					defer cancel()
					n := 0
					_ = ccontainer.WatchChanges[int](ctx, 0, ctr, func(int) error {
						n++
						if n > 3 {
							return errRaceTok
						}
						return nil
					}, nil)
				},
			}, func() {}
		}})

	out = append(out, raceClient{name: "CallConcurrently", methods: []string{"call-mixed", "call-cancel", "call-single", "call-nil", "call-shared-list"},
		build: func(_ *xorshift) ([]func(int, *xorshift), func()) {
			// one function list (with nil entries) owned by the client and passed by several goroutines at once:
			// the library may read it, nothing more
			// (consecutive calls share a list, so that a list is fresh when two goroutines pass it; the counter orders
			// nothing that happens after it is read)
			mkShared := func() []ccall.CallConcurrentlyFunc {
				return []ccall.CallConcurrentlyFunc{nil, func(context.Context) error { return nil }, nil, func(context.Context) error { return nil }, func(context.Context) error { return errRaceTok }}
			}
			lists := make([][]ccall.CallConcurrentlyFunc, 512)
			for i := range lists {
				lists[i] = mkShared()
			}
			var listCtr atomic.Int64
			mk := func(x *xorshift, n int) []ccall.CallConcurrentlyFunc {
				fs := make([]ccall.CallConcurrentlyFunc, n)
				for i := range fs {
					switch x.IntN(4) {
					case 0:
						fs[i] = func(context.Context) error { return nil }
					case 1:
						fs[i] = func(context.Context) error { return errRaceTok }
					case 2:
						fs[i] = func(ctx context.Context) error { runtime.Gosched(); return ctx.Err() }
					}
				}
				return fs
			}
			return []func(int, *xorshift){
				func(_ int, x *xorshift) { _ = ccall.CallConcurrently(bg, mk(x, 2+x.IntN(5))...) },
				func(_ int, x *xorshift) {
					ctx, cancel := short()
					defer cancel()
					_ = ccall.CallConcurrently(ctx, mk(x, 3)...)
				},
				func(_ int, x *xorshift) { _ = ccall.CallConcurrently(bg, mk(x, 1)...) },
				func(int, *xorshift) { _ = ccall.CallConcurrently(bg, nil, nil) },
				func(int, *xorshift) {
					shared := lists[int(listCtr.Add(1)/3)%len(lists)]
					_ = ccall.CallConcurrently(bg, shared...)
				},
			}, func() {}
		}})

	out = append(out, raceClient{name: "ConcurrentQueue", methods: []string{"Enqueue", "Enqueue()", "WaitIdle", "WatchState"},
		build: func(s *xorshift) ([]func(int, *xorshift), func()) {
			q := conc.NewConcurrentQueue([]int{0, 1, 2, 4}[s.IntN(4)], func() {}, func() {})
			return []func(int, *xorshift){
				func(_ int, x *xorshift) {
					n := x.IntN(4)
					js := make([]func(), n)
					for i := range js {
						if x.IntN(5) != 0 {
							js[i] = func() { runtime.Gosched() }
						}
					}
					q.Enqueue(js...)
				},
				func(int, *xorshift) { q.Enqueue() },
				func(int, *xorshift) { ctx, cancel := short(); defer cancel(); _ = q.WaitIdle(ctx, nil) },
				func(int, *xorshift) {
					ctx, cancel := short()
					defer cancel()
					n := 0
					_ = q.WatchState(ctx, nil, func(int, int) (bool, error) { n++; return n < 4, nil })
				},
			}, func() { _ = q.WaitIdle(bg, nil) }
		}})

	out = append(out, raceClient{name: "AtomicLIFO", methods: []string{"Push", "Pop"},
		build: func(_ *xorshift) ([]func(int, *xorshift), func()) {
			var q cqueue.AtomicLIFO[int]
			return []func(int, *xorshift){
				func(g int, x *xorshift) { q.Push(g*1000 + x.IntN(999) + 1) },
				func(int, *xorshift) { _ = q.Pop() },
			}, func() {}
		}})

	out = append(out, raceClient{name: "LinkedList", methods: []string{"Push", "PushFront", "Pop", "Peek", "PeekTail", "IsEmpty", "Reset"},
		build: func(_ *xorshift) ([]func(int, *xorshift), func()) {
			l := linkedlist.NewLinkedList(1, 2, 3)
			return []func(int, *xorshift){
				func(g int, _ *xorshift) { l.Push(g) },
				func(g int, _ *xorshift) { l.PushFront(g) },
				func(int, *xorshift) { l.Pop() },
				func(int, *xorshift) { l.Peek() },
				func(int, *xorshift) { l.PeekTail() },
				func(int, *xorshift) { l.IsEmpty() },
				func(_ int, x *xorshift) {
					if x.IntN(6) == 0 {
						l.Reset()
					}
				},
			}, func() {}
		}})

	keyedBuild := func(refc bool) func(s *xorshift) ([]func(int, *xorshift), func()) {
		return func(s *xorshift) ([]func(int, *xorshift), func()) {
			keys := []string{"a", "b", "c"}
			ctor := func(key string) (keyed.Routine, int) {
				return func(ctx context.Context) error {
					select {
					case <-ctx.Done():
						return context.Canceled
					case <-time.After(50 * time.Microsecond):
						return errRaceTok
					}
				}, 7
			}
			opts := []keyed.Option[string, int]{keyed.WithExitCb(func(string, keyed.Routine, int, error) {})}
			if s.IntN(2) == 0 {
				opts = append(opts, keyed.WithBackoff[string, int](func(string) cbackoff.BackOff { return cbackoff.NewConstantBackOff(100 * time.Microsecond) }))
			}
			if s.IntN(2) == 0 {
				opts = append(opts, keyed.WithReleaseDelay[string, int](150*time.Microsecond))
			}
			ctx, cancel := context.WithCancel(bg)
			if !refc {
				k := keyed.NewKeyed(ctor, opts...)
				k.SetContext(ctx, false)
				calls := []func(int, *xorshift){
					func(_ int, x *xorshift) { k.SetKey(keys[x.IntN(3)], x.IntN(2) == 0) },
					func(_ int, x *xorshift) { k.RemoveKey(keys[x.IntN(3)]) },
					func(_ int, x *xorshift) { k.SyncKeys([]string{keys[x.IntN(3)], keys[x.IntN(3)]}, x.IntN(2) == 0) },
					func(_ int, x *xorshift) { k.GetKey(keys[x.IntN(3)]); k.GetKeys(); k.GetKeysWithData() },
					func(_ int, x *xorshift) { k.RestartRoutine(keys[x.IntN(3)]) },
					func(_ int, x *xorshift) { k.ResetRoutine(keys[x.IntN(3)], func(string, int) bool { return true }) },
					func(int, *xorshift) { k.RestartAllRoutines(); k.ResetAllRoutines() },
					func(_ int, x *xorshift) {
						if x.IntN(4) == 0 {
							k.ClearContext()
						} else {
							k.SetContext(ctx, x.IntN(2) == 0)
						}
					},
				}
				return calls, func() { k.ClearContext(); cancel(); time.Sleep(2 * time.Millisecond) }
			}
			k := keyed.NewKeyedRefCount(ctor, opts...)
			k.SetContext(ctx, false)
			calls := []func(int, *xorshift){
				func(_ int, x *xorshift) {
					ref, _, _ := k.AddKeyRef(keys[x.IntN(3)])
					runtime.Gosched()
					ref.Release()
					if x.IntN(3) == 0 {
						ref.Release()
					}
				},
				func(_ int, x *xorshift) { k.RemoveKey(keys[x.IntN(3)]) },
				func(_ int, x *xorshift) { k.GetKey(keys[x.IntN(3)]); k.GetKeys(); k.GetKeysWithData() },
				func(_ int, x *xorshift) { k.RestartRoutine(keys[x.IntN(3)]); k.ResetRoutine(keys[x.IntN(3)]) },
				func(int, *xorshift) { k.RestartAllRoutines(); k.ResetAllRoutines() },
				func(_ int, x *xorshift) {
					if x.IntN(4) == 0 {
						k.ClearContext()
					} else {
						k.SetContext(ctx, x.IntN(2) == 0)
					}
				},
			}
			return calls, func() { k.ClearContext(); cancel(); time.Sleep(2 * time.Millisecond) }
		}
	}
	out = append(out, raceClient{name: "Keyed", methods: []string{"SetKey", "RemoveKey", "SyncKeys", "Get*", "RestartRoutine", "ResetRoutine", "RestartAll/ResetAll", "SetContext/ClearContext"}, build: keyedBuild(false)})
	out = append(out, raceClient{name: "KeyedRefCount", methods: []string{"AddKeyRef/Release", "RemoveKey", "Get*", "Restart/Reset", "RestartAll/ResetAll", "SetContext/ClearContext"}, build: keyedBuild(true)})

	rtRoutine := func(ctx context.Context) error {
		select {
		case <-ctx.Done():
			return context.Canceled
		case <-time.After(40 * time.Microsecond):
			return errRaceTok
		}
	}
	out = append(out, raceClient{name: "RoutineContainer", methods: []string{"SetRoutine", "SetRoutine(nil)", "RestartRoutine", "SetContext", "ClearContext", "WaitExited"},
		build: func(s *xorshift) ([]func(int, *xorshift), func()) {
			var opts []routine.Option
			if s.IntN(2) == 0 {
				opts = append(opts, routine.WithBackoff(cbackoff.NewConstantBackOff(100*time.Microsecond)))
			}
			opts = append(opts, routine.WithExitCb(func(error) {}))
			k := routine.NewRoutineContainer(opts...)
			ctx, cancel := context.WithCancel(bg)
			k.SetContext(ctx, false)
			return []func(int, *xorshift){
				func(int, *xorshift) { k.SetRoutine(rtRoutine) },
				func(int, *xorshift) { k.SetRoutine(nil) },
				func(int, *xorshift) { k.RestartRoutine() },
				func(_ int, x *xorshift) { k.SetContext(ctx, x.IntN(2) == 0) },
				func(int, *xorshift) { k.ClearContext() },
				func(_ int, x *xorshift) { c2, cc := short(); defer cc(); _ = k.WaitExited(c2, x.IntN(2) == 0, nil) },
			}, func() { k.ClearContext(); cancel(); time.Sleep(2 * time.Millisecond) }
		}})
	out = append(out, raceClient{name: "StateRoutineContainer", methods: []string{"SetState", "SetState(0)", "SwapValue", "SetStateRoutine", "GetState", "RestartRoutine", "SetContext", "ClearContext", "WaitExited"},
		build: func(s *xorshift) ([]func(int, *xorshift), func()) {
			var opts []routine.Option
			if s.IntN(2) == 0 {
				opts = append(opts, routine.WithBackoff(cbackoff.NewConstantBackOff(100*time.Microsecond)))
			}
			var cmp func(a, b int) bool
			if s.IntN(2) == 0 {
				cmp = func(a, b int) bool { return a == b }
			}
			k := routine.NewStateRoutineContainer[int](cmp, opts...)
			fn := func(ctx context.Context, st int) error { return rtRoutine(ctx) }
			k.SetStateRoutine(fn)
			ctx, cancel := context.WithCancel(bg)
			k.SetContext(ctx, false)
			return []func(int, *xorshift){
				func(_ int, x *xorshift) { k.SetState(1 + x.IntN(5)) },
				func(int, *xorshift) { k.SetState(0) },
				func(_ int, x *xorshift) { k.SwapValue(func(v int) int { return v + x.IntN(2) }) },
				func(int, *xorshift) { k.SetStateRoutine(fn) },
				func(int, *xorshift) { _ = k.GetState() },
				func(int, *xorshift) { k.RestartRoutine() },
				func(_ int, x *xorshift) { k.SetContext(ctx, x.IntN(2) == 0) },
				func(int, *xorshift) { k.ClearContext() },
				func(_ int, x *xorshift) { c2, cc := short(); defer cc(); _ = k.WaitExited(c2, x.IntN(2) == 0, nil) },
			}, func() { k.ClearContext(); cancel(); time.Sleep(2 * time.Millisecond) }
		}})

	out = append(out, raceClient{name: "RefCount", methods: []string{"AddRef/Release", "AddRef(nil)", "AddRefPromise", "Wait", "Resolve", "ResolveWithReleased", "WaitWithReleased", "Access", "SetContext", "ClearContext", "released()", "WaitRefCountContainer"},
		build: func(s *xorshift) ([]func(int, *xorshift), func()) {
			target := ccontainer.NewCContainer[*rfVal](nil)
			targetErr := ccontainer.NewCContainer[*error](nil)
			var relMu sync.Mutex
			var lastReleased func()
			n := 0
			resolver := func(ctx context.Context, released func()) (*rfVal, func(), error) {
				relMu.Lock()
				lastReleased = released
				n++
				k := n
				relMu.Unlock()
				if k%5 == 0 {
					return nil, nil, errRaceTok
				}
				return &rfVal{id: k}, func() {}, nil
			}
			ctx, cancel := context.WithCancel(bg)
			rc := refcount.NewRefCount(ctx, s.IntN(2) == 0, target, targetErr, resolver)
			return []func(int, *xorshift){
				func(int, *xorshift) {
					ref := rc.AddRef(func(bool, *rfVal, error) {})
					runtime.Gosched()
					ref.Release()
					ref.Release()
				},
				func(int, *xorshift) { ref := rc.AddRef(nil); ref.Release() },
				func(int, *xorshift) {
					p, ref := rc.AddRefPromise()
					c2, cc := short()
					_, _ = p.Await(c2)
					cc()
					ref.Release()
				},
				func(int, *xorshift) {
					c2, cc := short()
					defer cc()
					if _, ref, err := rc.Wait(c2); err == nil {
						ref.Release()
					}
				},
				func(int, *xorshift) {
					c2, cc := short()
					defer cc()
					if _, rel, err := rc.Resolve(c2); err == nil {
						rel()
					}
				},
				func(int, *xorshift) {
					c2, cc := short()
					defer cc()
					if _, rel, err := rc.ResolveWithReleased(c2, func() {}); err == nil {
						runtime.Gosched()
						rel()
					}
				},
				func(int, *xorshift) {
					c2, cc := short()
					defer cc()
					p, ref := rc.WaitWithReleased(c2, func() {})
					_, _ = p.Await(c2)
					ref.Release()
				},
				func(int, *xorshift) {
					c2, cc := short()
					defer cc()
					_ = rc.Access(c2, func(ctx context.Context, v *rfVal) error { runtime.Gosched(); return nil })
				},
				func(_ int, x *xorshift) {
					if x.IntN(3) == 0 {
						rc.SetContext(context.WithValue(ctx, rtKey{}, x.IntN(100)))
					} else {
						rc.SetContext(ctx)
					}
				},
				func(_ int, x *xorshift) {
					if x.IntN(5) == 0 {
						rc.ClearContext()
					}
				},
				func(int, *xorshift) {
					relMu.Lock()
					f := lastReleased
					relMu.Unlock()
					if f != nil {
						f()
					}
				},
				func(int, *xorshift) {
					c2, cc := short()
					defer cc()
					_, _ = refcount.WaitRefCountContainer(c2, target, targetErr)
				},
			}, func() { rc.ClearContext(); cancel(); time.Sleep(2 * time.Millisecond) }
		}})

	out = append(out, raceClient{name: "Promise", methods: []string{"SetResult", "Await", "AwaitWithErrCh", "AwaitWithCancelCh", "Await(cancelled)"},
		build: func(s *xorshift) ([]func(int, *xorshift), func()) {
			var p *promise.Promise[int]
			if s.IntN(4) == 0 {
				p = promise.NewPromiseWithResult(3, nil)
			} else {
				p = promise.NewPromise[int]()
			}
			return []func(int, *xorshift){
				func(g int, x *xorshift) {
					if x.IntN(6) == 0 {
						p.SetResult(g+1, nil)
					}
				},
				func(int, *xorshift) { c2, cc := short(); defer cc(); _, _ = p.Await(c2) },
				func(int, *xorshift) { c2, cc := short(); defer cc(); _, _ = p.AwaitWithErrCh(c2, make(chan error)) },
				func(int, *xorshift) {
					c2, cc := short()
					defer cc()
					_, _ = p.AwaitWithCancelCh(c2, make(chan struct{}))
				},
				func(int, *xorshift) { c2, cc := context.WithCancel(bg); cc(); _, _ = p.Await(c2) },
			}, func() {}
		}})

	out = append(out, raceClient{name: "PromiseContainer", methods: []string{"SetPromise", "SetPromise(nil)", "SetResult", "GetPromise", "Await", "AwaitWithErrCh", "AwaitWithCancelCh", "inner.SetResult"},
		build: func(_ *xorshift) ([]func(int, *xorshift), func()) {
			pc := promise.NewPromiseContainer[int]()
			var mu sync.Mutex
			cur := promise.NewPromise[int]()
			return []func(int, *xorshift){
				func(int, *xorshift) {
					p := promise.NewPromise[int]()
					mu.Lock()
					cur = p
					mu.Unlock()
					pc.SetPromise(p)
				},
				func(int, *xorshift) { pc.SetPromise(nil) },
				func(g int, x *xorshift) { pc.SetResult(g, []error{nil, errRaceTok, context.Canceled}[x.IntN(3)]) },
				func(int, *xorshift) { _, _ = pc.GetPromise() },
				func(int, *xorshift) { c2, cc := short(); defer cc(); _, _ = pc.Await(c2) },
				func(int, *xorshift) { c2, cc := short(); defer cc(); _, _ = pc.AwaitWithErrCh(c2, make(chan error)) },
				func(int, *xorshift) {
					c2, cc := short()
					defer cc()
					_, _ = pc.AwaitWithCancelCh(c2, make(chan struct{}))
				},
				func(g int, _ *xorshift) {
					mu.Lock()
					p := cur
					mu.Unlock()
					p.SetResult(g, nil)
				},
			}, func() {}
		}})

	out = append(out, raceClient{name: "Once", methods: []string{"Resolve", "Resolve(cancel)"},
		build: func(_ *xorshift) ([]func(int, *xorshift), func()) {
			var mu sync.Mutex
			n := 0
			o := promise.NewOnce(func(ctx context.Context) (int, error) {
				mu.Lock()
				n++
				k := n
				mu.Unlock()
				runtime.Gosched()
				if k%3 != 0 {
					return 0, errRaceTok
				}
				return k, nil
			})
			return []func(int, *xorshift){
				func(int, *xorshift) { _, _ = o.Resolve(bg) },
				func(int, *xorshift) { c2, cc := short(); defer cc(); _, _ = o.Resolve(c2) },
			}, func() {}
		}})

	out = append(out, raceClient{name: "MemoizeFunc", methods: []string{"call", "call(2)"},
		build: func(_ *xorshift) ([]func(int, *xorshift), func()) {
			f := memo.MemoizeFunc(func() (int, error) { runtime.Gosched(); return 7, nil })
			return []func(int, *xorshift){
				func(int, *xorshift) { _, _ = f() },
				func(int, *xorshift) { _, _ = f() },
			}, func() {}
		}})

	out = append(out, raceClient{name: "iocloser", methods: []string{"Read", "Write", "Close(r)", "Close(w)"},
		build: func(_ *xorshift) ([]func(int, *xorshift), func()) {
			r := iocloser.NewReadCloser(nopStream{}, func() error { return nil })
			wr := iocloser.NewWriteCloser(nopStream{}, func() error { return nil })
			return []func(int, *xorshift){
				func(int, *xorshift) { _, _ = r.Read(make([]byte, 4)) },
				func(int, *xorshift) { _, _ = wr.Write(make([]byte, 4)) },
				func(_ int, x *xorshift) {
					if x.IntN(20) == 0 {
						_ = r.Close()
					}
				},
				func(_ int, x *xorshift) {
					if x.IntN(20) == 0 {
						_ = wr.Close()
					}
				},
			}, func() {}
		}})

	out = append(out, raceClient{name: "SizeReadWriter", methods: []string{"Read", "Write", "TotalSize"},
		build: func(_ *xorshift) ([]func(int, *xorshift), func()) {
			s := iosizer.NewSizeReadWriter(nopStream{}, nopStream{})
			return []func(int, *xorshift){
				func(int, *xorshift) { _, _ = s.Read(make([]byte, 3)) },
				func(int, *xorshift) { _, _ = s.Write(make([]byte, 5)) },
				func(int, *xorshift) { _ = s.TotalSize() },
			}, func() {}
		}})
	var _ io.Reader = nopStream{}
	_ = fmt.Sprint
	return out
}
