package worlds

import (
	"bytes"
	"fmt"
	"io"
	"math/rand/v2"
	"strings"
	"time"

	"github.com/aperturerobotics/util/commonprefix"
	"github.com/aperturerobotics/util/padding"
	"github.com/aperturerobotics/util/prng"

	"verifharness/mon"
)

func init() {
	Registry["C19"] = Spec{
		Run: runC19, Workers: 8, GOMAXPROCS: 2,
		QuickTimeout: 4 * time.Minute, ThoroughTimeout: 20 * time.Minute,
		QuickFloor: 2000, ThoroughFloor: 50000,
		RequiredCounters: []string{"pad_roundtrips", "unpad_arbitrary", "prefix_checked", "prng_streams"},
		Rule: "inputs are enumerated (all pad lengths 0..L x contents x spare capacities; every Unpad input of length<=2; every trailer byte) and seed-generated (longer Unpad inputs, string sets over an alphabet with 0x00/0x7f/0x80/0xc3/0xa9/0xff and multi-byte runes, prng seeds and chunkings); " +
			"an input is non-trivial if it is empty, sits on a 32-byte boundary (len%32 in {0,31}), has spare capacity, contains a byte >= 0x80, or (prng) is read with a chunking that splits 8-byte words; distinct = distinct input hashes",
		Assumptions: append([]string{"oracles are independent re-implementations: byte-wise longest common prefix, byte-at-a-time reference reads"}, commonAssumptions...),
	}
}

func runC19(w *mon.Worker) {
	maxLen := w.Scale(130, 300)
	// --- padding round trip: lengths split over workers
	for l := 0; l <= maxLen; l++ {
		if l%w.N != w.Idx {
			continue
		}
		l := l
		w.Case("pad-roundtrip", map[string]any{"len": l}, func(c *mon.Case) { padCase(c, l, w.Scale(6, 20)) })
	}
	// --- Unpad on arbitrary input
	w.Case("unpad-small", map[string]any{"lens": "0..2"}, func(c *mon.Case) { unpadSmall(c, w.Idx, w.N) })
	for i := 0; i < w.Share(w.Scale(400, 24000)); i++ {
		w.Case("unpad-random", map[string]any{"i": i}, func(c *mon.Case) { unpadRandom(c, 256) })
	}
	// --- common prefix
	for i := 0; i < w.Share(w.Scale(4000, 300000)); i++ {
		w.Case("prefix", map[string]any{"i": i}, func(c *mon.Case) { prefixCase(c, 50) })
	}
	// --- prng
	for i := 0; i < w.Share(w.Scale(2000, 150000)); i++ {
		w.Case("prng", map[string]any{"i": i}, func(c *mon.Case) { prngCase(c) })
	}
}

func padContents(c *mon.Case, l, n int) [][]byte {
	var out [][]byte
	mk := func(f func(i int) byte) {
		b := make([]byte, l)
		for i := range b {
			b[i] = f(i)
		}
		out = append(out, b)
	}
	mk(func(int) byte { return 0 })
	mk(func(int) byte { return 0xff })
	mk(func(i int) byte { return byte(i + 1) })
	mk(func(i int) byte { return byte(31 - i%32) }) // bytes that look like trailers
	for i := 0; i < n; i++ {
		mk(func(int) byte { return byte(c.Rng.UintN(256)) })
	}
	return out
}

func padCase(c *mon.Case, l, nrand int) {
	spares := []int{0, 1, 30, 31, 32, 33, 64}
	for _, content := range padContents(c, l, nrand) {
		for _, spare := range spares {
			buf := make([]byte, l, l+spare)
			copy(buf, content)
			// garbage in the spare region: Pad must not leak it into the result's meaning
			sp := buf[l : l+spare]
			for i := range sp {
				sp[i] = 0xa5 ^ byte(i)
			}
			c.Evals(1)
			if l == 0 || l%32 == 0 || l%32 == 31 || spare > 0 || hasHigh(content) {
				c.NTInput(mon.HashBytes(content, []byte{byte(spare), 1}))
			}
			in := fmt.Sprintf("len=%d spare=%d content=%x", l, spare, trunc(content, 40))
			var padded []byte
			if p := catch(func() { padded = padding.PadInPlace(buf) }); p != nil {
				c.Violate("panic", "pad-panic", "PadInPlace panicked on %s: %v", in, p)
				continue
			}
			if len(padded) == 0 || len(padded)%32 != 0 {
				c.Violate("codec", "pad-length", "PadInPlace(%s) has length %d, not a positive multiple of 32", in, len(padded))
				continue
			}
			if len(padded) < l || !bytes.Equal(padded[:l], content) {
				c.Violate("codec", "pad-prefix", "PadInPlace(%s) does not start with the input: %x", in, trunc(padded, 80))
				continue
			}
			var un []byte
			var err error
			if p := catch(func() { un, err = padding.UnpadInPlace(padded) }); p != nil {
				c.Violate("panic", "unpad-panic", "UnpadInPlace(PadInPlace(%s)) panicked: %v", in, p)
				continue
			}
			if err != nil {
				c.Violate("codec", "pad-roundtrip-error", "UnpadInPlace(PadInPlace(%s)) returned error %v", in, err)
				continue
			}
			if !bytes.Equal(un, content) {
				c.Violate("codec", "pad-roundtrip", "UnpadInPlace(PadInPlace(%s)) = %x (len %d), want the input (len %d)", in, trunc(un, 80), len(un), l)
				continue
			}
			c.Count("pad_roundtrips", 1)
		}
	}
	if l < 4 {
		c.Rec("pad", "roundtrip", map[string]any{"len": l, "spares": spares})
	}
}

func hasHigh(b []byte) bool {
	for _, x := range b {
		if x >= 0x80 {
			return true
		}
	}
	return false
}

func trunc(b []byte, n int) []byte {
	if len(b) > n {
		return b[:n]
	}
	return b
}

func catch(f func()) (p any) {
	defer func() { p = recover() }()
	f()
	return nil
}

// checkUnpad judges one arbitrary Unpad input: error, or exactly the prefix of length len-pad-1.
func checkUnpad(c *mon.Case, in []byte) {
	c.Evals(1)
	orig := append([]byte(nil), in...)
	var un []byte
	var err error
	if p := catch(func() { un, err = padding.UnpadInPlace(in) }); p != nil {
		c.Violate("panic", "unpad-panic", "UnpadInPlace panicked on input %x (len %d): %v", trunc(orig, 40), len(orig), p)
		return
	}
	c.Count("unpad_arbitrary", 1)
	if len(orig) == 0 || len(orig)%32 == 0 || (len(orig) > 0 && orig[len(orig)-1] >= 0x80) {
		c.NTInput(mon.HashBytes(orig, []byte{2}))
	}
	if err != nil {
		return
	}
	if len(orig) == 0 {
		c.Violate("codec", "unpad-empty", "UnpadInPlace(empty) returned no error")
		return
	}
	want := len(orig) - int(orig[len(orig)-1]) - 1
	if want < 0 || len(un) != want || !bytes.Equal(un, orig[:want]) {
		c.Violate("codec", "unpad-overread", "UnpadInPlace(%x) (len %d, trailer %d) returned %d bytes without error; want an error or the prefix of length %d",
			trunc(orig, 40), len(orig), orig[len(orig)-1], len(un), want)
	}
}

func unpadSmall(c *mon.Case, idx, n int) {
	if idx == 0 {
		checkUnpad(c, nil)
		checkUnpad(c, []byte{})
		for a := 0; a < 256; a++ {
			checkUnpad(c, []byte{byte(a)})
		}
	}
	for a := 0; a < 256; a++ {
		if a%n != idx {
			continue
		}
		for b := 0; b < 256; b++ {
			checkUnpad(c, []byte{byte(a), byte(b)})
		}
	}
	c.Rec("unpad", "all inputs of length<=2 (this worker's share)", nil)
}

func unpadRandom(c *mon.Case, n int) {
	for i := 0; i < n; i++ {
		var l int
		switch c.Rng.IntN(3) {
		case 0:
			l = 3 + c.Rng.IntN(70)
		case 1:
			l = 32 * (1 + c.Rng.IntN(4))
		default:
			l = 32*(1+c.Rng.IntN(4)) + c.Rng.IntN(3) - 1
		}
		b := make([]byte, l)
		for j := range b {
			b[j] = byte(c.Rng.UintN(256))
		}
		// every trailer value is visited over the run
		b[l-1] = byte((i + c.Index) % 256)
		checkUnpad(c, b)
	}
}

var prefixAlphabet = []string{"a", "b", "/", "\x00", "\x7f", "\x80", "\xc3", "\xa9", "\xff", "é", "日", "\xe6\x97", "ab", "\xf0\x9f\x98\x80"}

func lcp(strs []string) string {
	if len(strs) == 0 {
		return ""
	}
	p := strs[0]
	for _, s := range strs[1:] {
		i := 0
		for i < len(p) && i < len(s) && p[i] == s[i] {
			i++
		}
		p = p[:i]
	}
	return p
}

func prefixCase(c *mon.Case, n int) {
	r := c.Rng
	for k := 0; k < n; k++ {
		ns := r.IntN(6)
		// a common stem followed by diverging tails
		stem := randStr(r, r.IntN(5))
		strs := make([]string, ns)
		for i := range strs {
			strs[i] = stem + randStr(r, r.IntN(4))
		}
		if ns > 0 && r.IntN(8) == 0 {
			strs[r.IntN(ns)] = ""
		}
		if ns > 1 && r.IntN(6) == 0 {
			strs[1] = strs[0]
		}
		c.Evals(1)
		all := strings.Join(strs, "\x01")
		if strings.IndexFunc(all, func(rn rune) bool { return rn >= 0x80 }) >= 0 || ns == 0 {
			c.NTInput(mon.HashBytes([]byte(all), []byte{byte(ns), 3}))
		}
		want := lcp(strs)
		var got string
		if p := catch(func() { got = commonprefix.Prefix(strs...) }); p != nil {
			c.Violate("panic", "prefix-panic", "Prefix(%q) panicked: %v", strs, p)
			continue
		}
		if got != want {
			c.Violate("codec", "prefix-not-longest", "Prefix(%q) = %q, byte-wise longest common prefix is %q", strs, got, want)
			continue
		}
		cp := append([]string(nil), strs...)
		if p := catch(func() { commonprefix.TrimPrefix(cp...) }); p != nil {
			c.Violate("panic", "trimprefix-panic", "TrimPrefix(%q) panicked: %v", strs, p)
			continue
		}
		for i := range cp {
			if cp[i] != strs[i][len(want):] {
				c.Violate("codec", "trimprefix", "TrimPrefix(%q)[%d] = %q, want %q", strs, i, cp[i], strs[i][len(want):])
				break
			}
		}
		c.Count("prefix_checked", 1)
		if k == 0 {
			c.Rec("prefix", "checked", fmt.Sprintf("%q -> %q", strs, got))
		}
	}
}

func randStr(r *rand.Rand, n int) string {
	var sb strings.Builder
	for i := 0; i < n; i++ {
		sb.WriteString(prefixAlphabet[r.IntN(len(prefixAlphabet))])
	}
	return sb.String()
}

func prngCase(c *mon.Case) {
	r := c.Rng
	nd := r.IntN(4)
	datas := make([][]byte, nd)
	for i := range datas {
		datas[i] = make([]byte, r.IntN(40))
		for j := range datas[i] {
			datas[i][j] = byte(r.UintN(256))
		}
	}
	total := 64 + r.IntN(300)
	// reference: one byte at a time
	ref := make([]byte, total)
	rd := prng.BuildSeededReader(datas...)
	for i := 0; i < total; i++ {
		n, err := rd.Read(ref[i : i+1])
		if n != 1 || err != nil {
			c.Violate("codec", "prng-read", "byte-wise Read returned n=%d err=%v", n, err)
			return
		}
	}
	for variant := 0; variant < 6; variant++ {
		var rdr io.Reader
		// the seed buffers belong to the caller: they are overwritten right after construction; the stream is a
		// function of what they held when the reader was built
		scratch := make([][]byte, len(datas))
		for i := range datas {
			scratch[i] = append([]byte(nil), datas[i]...)
		}
		if variant%2 == 0 {
			rdr = prng.BuildSeededReader(scratch...)
		} else {
			rdr = prng.SourceToReader(prng.BuildSeededRand(scratch...))
		}
		for i := range scratch {
			for j := range scratch[i] {
				scratch[i][j] ^= 0xa5
			}
		}
		got := make([]byte, 0, total)
		var chunks []int
		split := false
		for len(got) < total {
			max := 18
			if variant >= 4 {
				max = 70
			}
			k := r.IntN(max)
			if k > total-len(got) {
				k = total - len(got)
			}
			if len(got)%8 != 0 && k >= 8 {
				split = true
			}
			buf := make([]byte, k)
			n, err := rdr.Read(buf)
			if n != k || err != nil {
				c.Violate("codec", "prng-read", "Read(len %d) returned n=%d err=%v", k, n, err)
				return
			}
			got = append(got, buf...)
			chunks = append(chunks, k)
		}
		c.Evals(1)
		if split {
			c.NTInput(mon.HashBytes(bytes.Join(datas, []byte{0xfe}), []byte(fmt.Sprint(chunks)), []byte{4}))
		}
		if !bytes.Equal(got, ref) {
			i := 0
			for i < total && got[i] == ref[i] {
				i++
			}
			c.Violate("codec", "prng-chunking", "stream of equal seed differs at byte %d when read with chunks %v (seed datas %x)", i, chunks, datas)
			return
		}
		c.Count("prng_streams", 1)
		if variant == 0 {
			c.Rec("prng", "stream equal", map[string]any{"chunks": chunks, "bytes": total})
		}
	}
	// sources from equal seed data yield equal Uint64 sequences
	s1, s2 := prng.BuildSeededRand(datas...), prng.BuildSeededRand(datas...)
	for i := 0; i < 64; i++ {
		if a, b := s1.Uint64(), s2.Uint64(); a != b {
			c.Violate("codec", "prng-source", "sources from equal seed data differ at draw %d", i)
			return
		}
	}
}
