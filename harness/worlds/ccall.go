package worlds

import (
	"context"
	"fmt"
	"runtime"
	"sync/atomic"
	"time"

	"github.com/aperturerobotics/util/ccall"
	"github.com/aperturerobotics/util/verifhook"

	"verifharness/mon"
)

func init() {
	Registry["C17"] = Spec{
		Run: runC17, Workers: 16, GOMAXPROCS: 4,
		QuickTimeout: 5 * time.Minute, ThoroughTimeout: 30 * time.Minute,
		QuickFloor: 1500, ThoroughFloor: 30000,
		RequiredCounters: []string{"calls_judged", "gated_calls", "second_calls_with_same_slice", "CcallSpawned"},
		Rule: "each case is one CallConcurrently call with scripted functions; the space n<=4 functions x {nil entry, return nil, return unique error, return context.Canceled value} x {caller held at the post-spawn schedule point until every function finished, free} is enumerated completely " +
			"(coverage.exhaustive_subspace), larger n, wait-for-context functions, start delays and caller cancellation are seed-sampled; non-trivial = at least two functions with different outcomes; distinct = distinct (script, observed completion order, result) shapes",
		Assumptions: append([]string{"functions are harness closures that stamp entry/return on the case's logical clock and keep the context they were given"}, commonAssumptions...),
	}
}

type ccOutcome int

const (
	ccNilEntry ccOutcome = iota
	ccRetNil
	ccRetToken
	ccRetCanceled
	ccWaitCtx      // block until ctx is done, then return ctx.Err() mapped to context.Canceled
	ccWaitCtxToken // block until ctx is done, then return a unique error
)

var ccNames = []string{"nilfn", "nil", "err", "Canceled", "waitctx", "waitctx-err"}

type ccScript struct {
	Outcomes       []ccOutcome
	Delays         []int // 0 none, 1 yield, 2 short sleep
	Gate           bool  // hold the caller at CcallSpawned until all functions finished
	CancelCaller   int   // 0 never, 1 before the call, 2 during, 3 a deadline that has passed before the call, 4 a short timeout that expires during the call
	WrapTokens     bool  // the functions' own errors wrap context.Canceled (they are still errors other than context.Canceled)
	DeadlineTokens bool  // every other function's own error is context.DeadlineExceeded itself
}

func (s ccScript) String() string {
	out := ""
	for i, o := range s.Outcomes {
		out += fmt.Sprintf("%s/%d ", ccNames[o], s.Delays[i])
	}
	return fmt.Sprintf("[%s] gate=%v cancel=%d wrap=%v dl=%v", out, s.Gate, s.CancelCaller, s.WrapTokens, s.DeadlineTokens)
}

func runC17(w *mon.Worker) {
	mon.SetMaxSleep(150 * time.Microsecond)
	// complete enumeration, split over the workers
	idx := 0
	maxN := 4
	var enumerated int64
	for n := 0; n <= maxN; n++ {
		total := 1
		for i := 0; i < n; i++ {
			total *= 4
		}
		for code := 0; code < total; code++ {
			for gate := 0; gate < 2; gate++ {
				idx++
				if idx%w.N != w.Idx {
					continue
				}
				sc := ccScript{Gate: gate == 1}
				x := code
				for i := 0; i < n; i++ {
					sc.Outcomes = append(sc.Outcomes, ccOutcome(x%4))
					sc.Delays = append(sc.Delays, 0)
					x /= 4
				}
				enumerated++
				w.Case("enumerated", sc.String(), func(c *mon.Case) { ccallCase(c, sc, false) })
			}
		}
	}
	w.AddCounter("enumerated_subspace_cases", enumerated)
	// sampled: perturbation on, larger n, waits, delays, caller cancellation
	mon.SetProb(0.3, verifhook.BcastEnter, verifhook.BcastExit, verifhook.CcallSpawned)
	for i := 0; i < w.Share(w.Scale(12000, 9000000)); i++ {
		r := w.Rng
		n := 1 + r.IntN(7)
		sc := ccScript{Gate: r.IntN(4) == 0}
		hasUncond := false
		for j := 0; j < n; j++ {
			o := ccOutcome(r.IntN(4))
			if r.IntN(5) == 0 {
				o = ccRetToken
			}
			if o == ccRetToken {
				hasUncond = true
			}
			sc.Outcomes = append(sc.Outcomes, o)
			sc.Delays = append(sc.Delays, r.IntN(3))
		}
		if r.IntN(5) == 0 {
			sc.CancelCaller = 1 + r.IntN(4)
		}
		sc.WrapTokens = r.IntN(3) == 0
		sc.DeadlineTokens = !sc.WrapTokens && sc.CancelCaller < 3 && r.IntN(3) == 0
		if hasUncond || sc.CancelCaller != 0 {
			// waiting functions only where something ends the call
			for j := range sc.Outcomes {
				if sc.Outcomes[j] != ccRetToken && r.IntN(4) == 0 {
					sc.Outcomes[j] = ccWaitCtx + ccOutcome(r.IntN(2))
				}
			}
			if sc.CancelCaller == 0 {
				// keep one unconditional error
				found := false
				for _, o := range sc.Outcomes {
					if o == ccRetToken {
						found = true
					}
				}
				if !found {
					sc.Outcomes[0] = ccRetToken
				}
			}
			if sc.Gate {
				// a gated caller waits for all functions to finish; waiting functions never would
				for j := range sc.Outcomes {
					if sc.Outcomes[j] >= ccWaitCtx {
						sc.Gate = false
					}
				}
			}
		}
		w.Case("sampled", sc.String(), func(c *mon.Case) { ccallCase(c, sc, true) })
	}
	mon.ClearProb()
}

type ccFn struct {
	outcome ccOutcome
	token   error
	calls   atomic.Int64
	entered atomic.Int64 // stamp
	retAt   atomic.Int64 // stamp at which it is about to return
	ctx     atomic.Pointer[context.Context]
}

func ccallCase(c *mon.Case, sc ccScript, sampled bool) {
	n := len(sc.Outcomes)
	fns := make([]*ccFn, n)
	args := make([]ccall.CallConcurrentlyFunc, n)
	distinctOutcomes := map[ccOutcome]bool{}
	nonNil := 0
	for i := 0; i < n; i++ {
		i := i
		f := &ccFn{outcome: sc.Outcomes[i], token: fmt.Errorf("token-%d", i)}
		if sc.WrapTokens {
			f.token = fmt.Errorf("token-%d: %w", i, context.Canceled)
		}
		if sc.DeadlineTokens && i%2 == 0 {
			// context.DeadlineExceeded returned by a function (while the caller's context is live) is an error other than context.Canceled
			f.token = context.DeadlineExceeded
		}
		fns[i] = f
		if f.outcome == ccNilEntry {
			continue
		}
		nonNil++
		distinctOutcomes[f.outcome] = true
		delay := sc.Delays[i]
		args[i] = func(ctx context.Context) error {
			f.calls.Add(1)
			f.ctx.Store(&ctx)
			f.entered.Store(c.Rec(fmt.Sprint("fn", i), "enter", nil))
			switch delay {
			case 1:
				runtime.Gosched()
			case 2:
				time.Sleep(time.Duration(20+i*15) * time.Microsecond)
			}
			var err error
			switch f.outcome {
			case ccRetNil:
			case ccRetToken:
				err = f.token
			case ccRetCanceled:
				err = context.Canceled
			case ccWaitCtx:
				<-ctx.Done()
				err = context.Canceled
			case ccWaitCtxToken:
				<-ctx.Done()
				err = f.token
			}
			f.retAt.Store(c.Rec(fmt.Sprint("fn", i), "return "+ccNames[f.outcome], nil))
			return err
		}
	}
	if len(distinctOutcomes) >= 2 {
		c.NonTrivial()
	}
	ctx, cancel := context.WithCancel(context.Background())
	defer cancel()
	var cancelStamp atomic.Int64
	switch sc.CancelCaller {
	case 1:
		cancelStamp.Store(c.Rec("caller", "cancel-before", nil))
		cancel()
	case 3:
		var cancel2 context.CancelFunc
		ctx, cancel2 = context.WithDeadline(ctx, time.Unix(1, 0))
		defer cancel2()
		cancelStamp.Store(c.Rec("caller", "deadline-passed-before", nil))
	case 4:
		var cancel2 context.CancelFunc
		ctx, cancel2 = context.WithTimeout(ctx, time.Duration(200+c.Rng.IntN(1500))*time.Microsecond)
		defer cancel2()
	}

	var gate *mon.Gate
	if sc.Gate {
		gate = mon.NewGate(verifhook.CcallSpawned, nil, 1)
	}
	type result struct {
		err      error
		retStamp int64
		panicked any
	}
	resCh := make(chan result, 1)
	callStamp := c.Rec("caller", "call", sc.String())
	go func() {
		var r result
		func() {
			defer func() { r.panicked = recover() }()
			r.err = ccall.CallConcurrently(ctx, args...)
		}()
		r.retStamp = c.Rec("caller", "returned", fmt.Sprint(r.err))
		resCh <- r
	}()
	if gate != nil {
		// n<=1 non-nil paths never reach the schedule point
		select {
		case <-gate.Arrived():
			// everything that can finish, finishes while the caller is parked
			if !mon.Quiesce(5 * time.Second) {
				gate.Release()
				c.Inconclusive("no quiescence with the caller parked")
				<-resCh
				return
			}
			c.Count("gated_calls", 1)
			c.Rec("caller", "released from post-spawn point", nil)
			gate.Release()
		case r := <-resCh:
			gate.Release()
			resCh <- r
		case <-time.After(5 * time.Second):
			gate.Release()
			c.Inconclusive("gate not reached")
		}
	}
	if sc.CancelCaller == 2 {
		for i := 0; i < c.Rng.IntN(50); i++ {
			runtime.Gosched()
		}
		cancelStamp.Store(c.Rec("caller", "cancel-during", nil))
		cancel()
	}
	var res result
	select {
	case res = <-resCh:
	case <-time.After(200 * time.Millisecond):
		// decide a hang logically: the call is still blocked although nothing can move
		if mon.Quiesce(5*time.Second) && mon.QuiesceConfirmed(200*time.Millisecond, 5*time.Second) {
			select {
			case res = <-resCh:
			default:
				c.Violate("hang", "ccall-never-returns", "CallConcurrently %s (called at %d) is still blocked in a quiescent process", sc, callStamp)
				cancel()
				<-resCh
				return
			}
		} else {
			select {
			case res = <-resCh:
			case <-time.After(10 * time.Second):
				c.Inconclusive("call did not return and no quiescence")
				cancel()
				return
			}
		}
	}
	if gate != nil && gate.TimedOut.Load() {
		c.Inconclusive("gate timed out")
		return
	}
	if res.panicked != nil {
		c.Violate("panic", "ccall-panic", "CallConcurrently %s panicked: %v", sc, res.panicked)
		return
	}
	// the call has returned: the argument slice is the caller's again. Recycle it at once - goroutines the call
	// spawned but that have not started yet must already know which function they run
	orig := append([]ccall.CallConcurrentlyFunc(nil), args...)
	var foreignCalls atomic.Int64
	for i := range args {
		args[i] = func(context.Context) error { foreignCalls.Add(1); return nil }
	}
	// let every spawned function finish (waiting ones see the cancelled context)
	if !mon.Quiesce(5 * time.Second) {
		c.Inconclusive("no quiescence after return")
		return
	}
	copy(args, orig)
	if k := foreignCalls.Load(); k != 0 {
		c.Violate("ccall", "ccall-ran-function-not-passed", "after CallConcurrently %s had returned %v the caller overwrote its argument slice; %d of the overwriting functions were run by the call", sc, res.err, k)
		return
	}
	c.Count("calls_judged", 1)
	order := uint64(0)
	for i, f := range fns {
		if f.outcome != ccNilEntry {
			order = order*31 + uint64(f.retAt.Load()) + uint64(i)
		}
	}
	c.Mix(order)

	// every non-nil function exactly once
	for i, f := range fns {
		if f.outcome == ccNilEntry {
			continue
		}
		if k := f.calls.Load(); k != 1 {
			c.Violate("ccall", "ccall-invocation-count", "function %d of %s was invoked %d times (at quiescence after the call returned %v)", i, sc, k, res.err)
			return
		}
		if p := f.ctx.Load(); p != nil && (*p).Err() == nil {
			c.Violate("ccall", "ccall-ctx-not-cancelled", "the context given to function %d of %s is still live after the call returned %v", i, sc, res.err)
			return
		}
	}
	callerCancelled := cancelStamp.Load() != 0 && cancelStamp.Load() < res.retStamp
	if sc.CancelCaller == 4 && ctx.Err() != nil {
		// the moment the timeout fired is not observable; this only permits a context.Canceled result
		callerCancelled = true
	}
	if res.err == nil {
		for i, f := range fns {
			if f.outcome == ccNilEntry {
				continue
			}
			if f.outcome != ccRetNil {
				c.Violate("ccall", "ccall-nil-despite-error", "CallConcurrently %s returned nil although function %d returns %s", sc, i, ccNames[f.outcome])
				return
			}
			if f.retAt.Load() == 0 || f.retAt.Load() > res.retStamp {
				c.Violate("ccall", "ccall-nil-before-all-done", "CallConcurrently %s returned nil (stamp %d) before function %d had returned (stamp %d)", sc, res.retStamp, i, f.retAt.Load())
				return
			}
		}
		// the argument slice belongs to the caller: calling again with the same slice runs every non-nil function once more
		allNil, hasNilEntry := true, false
		for _, f := range fns {
			switch f.outcome {
			case ccNilEntry:
				hasNilEntry = true
			case ccRetNil:
			default:
				allNil = false
			}
		}
		if allNil && hasNilEntry && nonNil > 0 && sc.CancelCaller == 0 && res.err == nil && !c.Violated() {
			err2 := ccall.CallConcurrently(ctx, args...)
			if !mon.Quiesce(5 * time.Second) {
				c.Inconclusive("no quiescence after the second call")
				return
			}
			c.Count("second_calls_with_same_slice", 1)
			for i, f := range fns {
				if f.outcome == ccNilEntry {
					continue
				}
				if k := f.calls.Load(); k != 2 || err2 != nil {
					c.Violate("ccall", "ccall-invocation-count", "a second CallConcurrently with the same argument slice %s returned %v and function %d has now been invoked %d times in total (want 2: once per call)", sc, err2, i, k)
					return
				}
			}
		}
		return
	}
	// non-nil result
	if callerCancelled && res.err == context.Canceled {
		return
	}
	// must be an error some function actually returned before the call returned
	var fromFn *ccFn
	for _, f := range fns {
		if f.outcome == ccNilEntry || f.retAt.Load() == 0 || f.retAt.Load() > res.retStamp {
			continue
		}
		switch f.outcome {
		case ccRetToken, ccWaitCtxToken:
			if res.err == f.token {
				fromFn = f
			}
		case ccRetCanceled, ccWaitCtx:
			if res.err == context.Canceled && fromFn == nil {
				fromFn = f
			}
		}
	}
	if fromFn == nil {
		c.Violate("ccall", "ccall-foreign-error", "CallConcurrently %s returned %v, which no function had returned by then (caller cancelled: %v)", sc, res.err, callerCancelled)
		return
	}
	if !callerCancelled && res.err == context.Canceled {
		// allowed only if no function returns a non-Canceled error unconditionally
		for i, f := range fns {
			if f.outcome == ccRetToken {
				c.Violate("ccall", "ccall-canceled-hides-error", "CallConcurrently %s returned context.Canceled although function %d unconditionally returns %v and the caller's context was never cancelled", sc, i, f.token)
				return
			}
		}
	}
}
