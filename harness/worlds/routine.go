package worlds

import (
	"context"
	"fmt"
	"runtime"
	"sync"
	"sync/atomic"
	"time"

	cbackoff "github.com/cenkalti/backoff/v4"

	ubackoff "github.com/aperturerobotics/util/backoff"

	"github.com/aperturerobotics/util/routine"
	"github.com/aperturerobotics/util/verifhook"

	"verifharness/mon"
)

func init() {
	rtAssume := append([]string{
		"instances are harness closures that stamp their own entry and pre-return on the case's logical clock and keep the context they were given",
		"retry timers use a 1 ms constant backoff; 'the timer has surely fired' is decided by waiting >= 30 backoff periods (>= 15 ms) followed by goroutine-state quiescence, repeated until the instance count is stable",
	}, commonAssumptions...)
	Registry["C04"] = Spec{
		Run: runC04, Workers: 16, GOMAXPROCS: 4,
		QuickTimeout: 8 * time.Minute, ThoroughTimeout: 40 * time.Minute,
		QuickFloor: 200, ThoroughFloor: 4000,
		RequiredCounters: []string{"instances_entered", "supersessions_while_exiting", "wait_channels_checked", "gated_templates", "RoutineExecStart"},
		Rule: "each case drives one RoutineContainer or StateRoutineContainer (with and without retry backoff) through a burst-structured history of SetRoutine/SetState/SetStateRoutine/SwapValue/RestartRoutine/SetContext(new,same,restart)/ClearContext/root-context cancellation, " +
			"including removal (nil routine / empty state) followed by re-adding, while instances take a seeded time to return after cancellation (some ignore it for a while, some fail, some succeed); a per-container active counter is asserted at every entry and returned wait channels are watched; " +
			"gated templates hold one instance inside its exit and issue k>=2 supersessions; non-trivial = at least two supersessions were issued while an earlier instance was still running; distinct = distinct orders of call/entry/exit events",
		Assumptions: rtAssume,
	}
	Registry["C05"] = Spec{
		Run: runC05, Workers: 16, GOMAXPROCS: 4,
		QuickTimeout: 8 * time.Minute, ThoroughTimeout: 40 * time.Minute,
		QuickFloor: 200, ThoroughFloor: 4000,
		RequiredCounters: []string{"supersession_claims_checked", "quiescent_survivor_judgements", "survivor_present", "survivor_absent", "concurrent_cases", "stored_state_checks", "setcontext_done_context_calls", "RoutineExecDone"},
		Rule: "each case runs 3-5 concurrent drivers (one context changer, state/routine setters, restarters) or one sequential driver against instances that exit by themselves, fail (with retry timers) or run until cancelled; after every superseding call returns, every instance that entered before the call began must have a cancelled context; " +
			"at quiescence the set of live instances is judged against the last context operation, the stored state (GetState) and the context lineage tag; non-trivial = at least two API calls overlapped in time or a call overlapped an exit's bookkeeping; distinct = distinct event orders",
		Assumptions: rtAssume,
	}
	Registry["C14"] = Spec{
		Run: runC14, Workers: 16, GOMAXPROCS: 4,
		QuickTimeout: 8 * time.Minute, ThoroughTimeout: 40 * time.Minute,
		QuickFloor: 60, ThoroughFloor: 1500,
		RequiredCounters: []string{"settle_points_judged", "forbidden_rerun_windows", "required_reruns_seen", "waitexited_returns_judged", "exit_callbacks_checked", "backoff_resets_seen", "gated_timer_templates", "restart_in_backoff_templates", "constructor_templates"},
		Rule: "each case is a sequential history of 14-64 operations over SetRoutine/SetState/SetContext(same,new,nil; restart on/off)/RestartRoutine/ClearContext with scripted instance outcomes (success, unique error, run until cancelled), with and without a recording 1 ms backoff; after every operation the case settles " +
			"(timers fired, goroutines quiescent) and the number of instance entries is compared with what the documented machine requires or forbids; WaitExited is issued at random points with both returnIfNotRunning values; " +
			"non-trivial = the history contains at least one success, one failure and one restart-class call; distinct = distinct operation/outcome sequences",
		Assumptions: rtAssume,
	}
}

type rtKey struct{}

const rtBackoff = time.Millisecond

// rtInst is one execution of the managed function.
type rtInst struct {
	n       int
	gen     int // routine generation (RoutineContainer) or state value (StateRoutineContainer)
	ctx     context.Context
	tag     int
	enter   int64
	exit    atomic.Int64
	err     error
	release chan struct{} // for gated exits
	// superseded: the instance saw its context cancelled before it returned
	superseded bool
	// pre is stamped before the superseded check, exit after it
	pre int64
	// clean: the whole return path (pre..exit and the library's bookkeeping) ran inside one settled window,
	// with no API call in flight or issued before the process was quiet again
	clean bool
	// until: this instance's behaviour is "run until cancelled" (it only returns because its context ended)
	until atomic.Bool
}

// rtBehaviour decides how an instance behaves: returns (runUntilCancelled, exitLatency, err).
type rtBehaviour func(n, gen int) (untilCancelled bool, latency int, err error, gated bool)

type rtWorld struct {
	c        *mon.Case
	rc       *routine.RoutineContainer
	src      *routine.StateRoutineContainer[int]
	withCmp  bool
	retry    bool
	bo       *recBackoff
	active   atomic.Int64
	mu       sync.Mutex
	insts    []*rtInst
	behave   rtBehaviour
	exitCbMu sync.Mutex
	exitCbs  []error
	exitCbs2 []error
	stateSeq atomic.Int64
	cmp      func(a, b int) bool // the state equivalence handed to the container (nil: every SetState replaces)
}

// recBackoff is a constant 1 ms backoff that records its calls.
type recBackoff struct {
	c      *mon.Case
	mu     sync.Mutex
	nexts  int
	resets int
	log    []string
	dur    time.Duration // 0 = rtBackoff
	// stopAfter > 0: give up (backoff.Stop) once more than stopAfter intervals were handed out since the last Reset
	stopAfter  int
	sinceReset int
}

func (b *recBackoff) NextBackOff() time.Duration {
	b.mu.Lock()
	b.nexts++
	b.sinceReset++
	stop := b.stopAfter > 0 && b.sinceReset > b.stopAfter
	b.log = append(b.log, "next")
	b.mu.Unlock()
	if stop {
		return cbackoff.Stop
	}
	if b.dur != 0 {
		return b.dur
	}
	return rtBackoff
}

func (b *recBackoff) Reset() {
	b.mu.Lock()
	b.resets++
	b.sinceReset = 0
	b.log = append(b.log, "reset")
	b.mu.Unlock()
}

var _ cbackoff.BackOff = (*recBackoff)(nil)

func newRtWorld(c *mon.Case, state, withCmp, retry bool, behave rtBehaviour) *rtWorld {
	return newRtWorldBackoff(c, state, withCmp, retry, behave, 0)
}

// newRtWorldBackoff: a non-zero longBackoff configures a recording backoff of that (practically infinite) interval.
func newRtWorldBackoff(c *mon.Case, state, withCmp, retry bool, behave rtBehaviour, longBackoff time.Duration) *rtWorld {
	w := &rtWorld{c: c, withCmp: withCmp, retry: retry, behave: behave}
	var opts []routine.Option
	if retry && longBackoff != 0 {
		w.bo = &recBackoff{c: c, dur: longBackoff}
		opts = append(opts, routine.WithBackoff(w.bo))
	} else if retry {
		// three documented ways to configure retry; the recording backoff is only available with WithBackoff
		switch retryConfigKind(c) {
		case 1:
			opts = append(opts, routine.WithRetry(&ubackoff.Backoff{BackoffKind: ubackoff.BackoffKind_BackoffKind_CONSTANT, Constant: &ubackoff.Constant{Interval: 1}}))
		case 2:
			// kind left unset: documented to mean exponential with the given parameters
			opts = append(opts, routine.WithRetry(&ubackoff.Backoff{Exponential: &ubackoff.Exponential{InitialInterval: 1, MaxInterval: 1, Multiplier: 1}}))
		default:
			w.bo = &recBackoff{c: c}
			opts = append(opts, routine.WithBackoff(w.bo))
		}
	}
	opts = append(opts, routine.WithExitCb(func(err error) {
		w.exitCbMu.Lock()
		w.exitCbs = append(w.exitCbs, err)
		w.exitCbMu.Unlock()
		c.Rec("exitcb", fmt.Sprint(err), nil)
	}), routine.WithExitCb(func(err error) {
		w.exitCbMu.Lock()
		w.exitCbs2 = append(w.exitCbs2, err)
		w.exitCbMu.Unlock()
	}))
	if state {
		var cmp func(a, b int) bool
		defer func() { w.cmp = cmp }()
		if withCmp {
			if c.Index%2 == 0 {
				cmp = func(a, b int) bool { return a == b }
			} else {
				// a custom equivalence: distinguishable states {1,2}, {3,4}, ... compare as equal (0 stays alone)
				cmp = func(a, b int) bool { return (a+1)/2 == (b+1)/2 }
			}
		}
		if c.Index%4 == 2 {
			// the logging constructors only add an exit callback that logs
			w.src = routine.NewStateRoutineContainerWithLogger[int](cmp, discardLogger(), opts...)
		} else {
			w.src = routine.NewStateRoutineContainer[int](cmp, opts...)
		}
		w.src.SetStateRoutine(func(ctx context.Context, st int) error { return w.run(ctx, st) })
	} else {
		if c.Index%4 == 2 {
			w.rc = routine.NewRoutineContainerWithLogger(discardLogger(), opts...)
		} else {
			w.rc = routine.NewRoutineContainer(opts...)
		}
	}
	return w
}

// retryConfigKind picks how retry is configured for a case (0 WithBackoff, 1 WithRetry constant, 2 WithRetry with the kind unset).
func retryConfigKind(c *mon.Case) int {
	if c.Index%4 == 1 {
		return 1
	}
	if c.Index%4 == 3 {
		return 2
	}
	return 0
}

func (w *rtWorld) kind() string {
	if w.src != nil {
		return "StateRoutineContainer"
	}
	return "RoutineContainer"
}

// run is the managed function.
func (w *rtWorld) run(ctx context.Context, gen int) error {
	c := w.c
	in := &rtInst{gen: gen, ctx: ctx, tag: -1, release: make(chan struct{})}
	if t, ok := ctx.Value(rtKey{}).(int); ok {
		in.tag = t
	}
	w.mu.Lock()
	in.n = len(w.insts)
	w.insts = append(w.insts, in)
	in.enter = c.Rec("inst", fmt.Sprintf("enter #%d gen %d tag %d", in.n, gen, in.tag), nil)
	w.mu.Unlock()
	c.Count("instances_entered", 1)
	if a := w.active.Add(1); a != 1 {
		c.Violate("overlap", w.kind()+"-instances-overlap", "%d instances of the managed function are executing at once on one %s (instance #%d gen %d just entered); running: %s", a, w.kind(), in.n, gen, w.describeRunning())
	}
	until, lat, err, gated := w.behave(in.n, gen)
	if until {
		in.until.Store(true)
		<-ctx.Done()
		if err == nil {
			err = context.Canceled
		}
	}
	switch {
	case gated:
		select {
		case <-in.release:
		case <-time.After(3 * time.Second):
		}
	case lat == 1:
		runtime.Gosched()
	case lat > 1:
		time.Sleep(time.Duration(lat) * time.Microsecond)
	}
	in.err = err
	in.pre = c.Stamp()
	in.superseded = ctx.Err() != nil
	w.active.Add(-1)
	in.exit.Store(c.Rec("inst", fmt.Sprintf("exit #%d gen %d err %v", in.n, gen, err), nil))
	return err
}

func (w *rtWorld) describeRunning() string {
	w.mu.Lock()
	defer w.mu.Unlock()
	s := ""
	for _, in := range w.insts {
		if in.exit.Load() == 0 {
			s += fmt.Sprintf("#%d(gen %d, entered %d, ctx cancelled %v) ", in.n, in.gen, in.enter, in.ctx.Err() != nil)
		}
	}
	return s
}

func (w *rtWorld) instances() []*rtInst {
	w.mu.Lock()
	defer w.mu.Unlock()
	return append([]*rtInst(nil), w.insts...)
}

// --- API wrappers: each returns the call stamp and whether the call claims to have superseded

func (w *rtWorld) setGen(actor string, gen int) (call int64, ch <-chan struct{}, superseded bool) {
	call = w.c.Rec(actor, fmt.Sprint("SetRoutine/SetState ", gen), nil)
	if w.src != nil {
		var changed bool
		ch, changed, _, _ = w.src.SetState(gen)
		superseded = changed
	} else {
		if gen == 0 {
			ch, _ = w.rc.SetRoutine(nil)
		} else {
			g := gen
			ch, _ = w.rc.SetRoutine(func(ctx context.Context) error { return w.run(ctx, g) })
		}
		superseded = true
	}
	w.c.Rec(actor, "ret SetRoutine/SetState", superseded)
	return
}

func (w *rtWorld) swapState(actor string, gen int) (call int64, ch <-chan struct{}, superseded bool) {
	call = w.c.Rec(actor, fmt.Sprint("SwapValue->", gen), nil)
	_, ch, changed, _, _ := w.src.SwapValue(func(int) int { return gen })
	w.c.Rec(actor, "ret SwapValue", changed)
	return call, ch, changed
}

func (w *rtWorld) resetStateRoutine(actor string) (call int64, ch <-chan struct{}) {
	call = w.c.Rec(actor, "SetStateRoutine", nil)
	ch, _, _ = w.src.SetStateRoutine(func(ctx context.Context, st int) error { return w.run(ctx, st) })
	w.c.Rec(actor, "ret SetStateRoutine", nil)
	return
}

func (w *rtWorld) restart(actor string) (int64, bool) {
	call := w.c.Rec(actor, "RestartRoutine", nil)
	var ok bool
	if w.src != nil {
		ok = w.src.RestartRoutine()
	} else {
		ok = w.rc.RestartRoutine()
	}
	w.c.Rec(actor, "ret RestartRoutine", ok)
	return call, ok
}

func (w *rtWorld) setContext(actor string, ctx context.Context, restart bool, what string) (int64, bool) {
	call := w.c.Rec(actor, "SetContext "+what+fmt.Sprint(" restart=", restart), nil)
	var ok bool
	if w.src != nil {
		ok = w.src.SetContext(ctx, restart)
	} else {
		ok = w.rc.SetContext(ctx, restart)
	}
	w.c.Rec(actor, "ret SetContext", ok)
	return call, ok
}

func (w *rtWorld) clearContext(actor string) (int64, bool) {
	call := w.c.Rec(actor, "ClearContext", nil)
	var ok bool
	if w.src != nil {
		ok = w.src.ClearContext()
	} else {
		ok = w.rc.ClearContext()
	}
	w.c.Rec(actor, "ret ClearContext", ok)
	return call, ok
}

func (w *rtWorld) waitExited(ctx context.Context, rinr bool, errCh <-chan error) error {
	if w.src != nil {
		return w.src.WaitExited(ctx, rinr, errCh)
	}
	return w.rc.WaitExited(ctx, rinr, errCh)
}

// checkSuperseded: after a superseding call returned, every instance that entered before the call began is cancelled.
func (w *rtWorld) checkSuperseded(call int64, what string) {
	w.c.Count("supersession_claims_checked", 1)
	for _, in := range w.instances() {
		if in.enter < call && in.exit.Load() == 0 && in.ctx.Err() == nil {
			w.c.Violate("supersede", w.kind()+"-superseded-instance-not-cancelled", "%s (called at %d) returned having superseded, but instance #%d (gen %d, entered at %d) still has a live context", what, call, in.n, in.gen, in.enter)
			return
		}
	}
}

// watchWaitCh checks the channel returned by SetRoutine/SetState: when it is observed closed,
// no instance that entered before the call may still be running.
func (w *rtWorld) watchWaitCh(call int64, ch <-chan struct{}) {
	if ch == nil {
		return
	}
	go func() {
		select {
		case <-ch:
		case <-time.After(5 * time.Second):
			return
		}
		w.c.Count("wait_channels_checked", 1)
		for _, in := range w.instances() {
			if in.enter < call && in.exit.Load() == 0 {
				w.c.Violate("overlap", w.kind()+"-wait-channel-closed-early", "the channel returned by the SetRoutine/SetState called at %d closed while instance #%d (gen %d, entered at %d) had not returned", call, in.n, in.gen, in.enter)
				return
			}
		}
	}()
}

// settle waits until timers have surely fired and nothing moves, repeated until the instance count is stable.
func (w *rtWorld) settle() bool {
	if !w.retry {
		return mon.Quiesce(10 * time.Second)
	}
	prev := -1
	for i := 0; i < 40; i++ {
		if !mon.SettleTimers(rtBackoff, 30, 15*time.Millisecond, 10*time.Second) {
			return false
		}
		n := len(w.instances())
		if n == prev {
			return true
		}
		prev = n
	}
	return false
}

func (w *rtWorld) releaseAll() {
	for _, in := range w.instances() {
		select {
		case <-in.release:
		default:
			close(in.release)
		}
	}
}

type rtCtxs struct {
	seq    int
	base   context.Context // the cancellable context under cur (nil for already-done ones)
	cur    context.Context
	cancel context.CancelFunc
	curTag int // 0 = none
	all    []context.CancelFunc
}

func (x *rtCtxs) fresh() (context.Context, int) {
	x.seq++
	base, cancel := context.WithCancel(context.Background())
	ctx := context.WithValue(base, rtKey{}, x.seq)
	x.all = append(x.all, cancel)
	x.base = base
	x.cur, x.cancel, x.curTag = ctx, cancel, x.seq
	return ctx, x.seq
}

// sibling returns a new context that shares its cancellation (Done channel) with the current one but is a different
// context (it carries a different value): for the container it is a new context like any other.
func (x *rtCtxs) sibling() (context.Context, int, bool) {
	if x.base == nil || x.cur == nil || x.cur.Err() != nil {
		return nil, 0, false
	}
	x.seq++
	ctx := context.WithValue(x.base, rtKey{}, x.seq)
	x.cur, x.curTag = ctx, x.seq
	return ctx, x.seq, true
}

// freshDone returns a new context that is already done: cancelled (kind 0) or past its deadline (kind 1).
func (x *rtCtxs) freshDone(kind int) (context.Context, int) {
	x.seq++
	base := context.WithValue(context.Background(), rtKey{}, x.seq)
	var ctx context.Context
	var cancel context.CancelFunc
	if kind == 0 {
		ctx, cancel = context.WithCancel(base)
		cancel()
	} else {
		ctx, cancel = context.WithDeadline(base, time.Unix(1, 0))
	}
	x.all = append(x.all, cancel)
	x.base = nil
	x.cur, x.cancel, x.curTag = ctx, nil, x.seq
	return ctx, x.seq
}

func (x *rtCtxs) cancelAll() {
	for _, f := range x.all {
		f()
	}
}

// ---------------------------------------------------------------- C04

func runC04(w *mon.Worker) {
	mon.SetMaxSleep(150 * time.Microsecond)
	for i := 0; i < w.Share(w.Scale(2400, 60000)); i++ {
		mon.SetProb(0.2, verifhook.BcastEnter, verifhook.BcastExit, verifhook.RoutineExecStart, verifhook.RoutineExecCall, verifhook.RoutineExecDone, verifhook.RoutineTimer)
		state, retry := i%2 == 1, i%5 == 0
		w.Case("bursts", map[string]any{"state": state, "retry": retry}, func(c *mon.Case) { c04BurstCase(c, state, retry) })
	}
	mon.ClearProb()
	for i := 0; i < w.Share(w.Scale(320, 8000)); i++ {
		state := i%2 == 1
		w.Case("gated", map[string]any{"state": state}, func(c *mon.Case) { c04GatedCase(c, state) })
	}
}

// c04Ops issues one random supersession-class operation; returns a description.
func c04Op(w *rtWorld, r interface{ IntN(int) int }, cx *rtCtxs, gen *int, allowRemoval bool) string {
	k := r.IntN(12)
	switch {
	case k < 3:
		*gen++
		call, ch, sup := w.setGen("d", *gen)
		w.watchWaitCh(call, ch)
		if sup {
			w.checkSuperseded(call, "SetRoutine/SetState")
		}
		return "set"
	case k < 4 && allowRemoval:
		call, ch, sup := w.setGen("d", 0)
		w.watchWaitCh(call, ch)
		if sup {
			w.checkSuperseded(call, "SetRoutine(nil)/SetState(empty)")
		}
		return "remove"
	case k < 6:
		call, ok := w.restart("d")
		if ok {
			w.checkSuperseded(call, "RestartRoutine")
		}
		return "restart"
	case k < 8:
		ctx, tag := cx.fresh()
		if r.IntN(8) == 0 {
			ctx, tag = cx.freshDone(r.IntN(2))
			w.c.Count("setcontext_done_context_calls", 1)
		}
		call, ok := w.setContext("d", ctx, r.IntN(2) == 0, fmt.Sprint("new#", tag, " done=", ctx.Err() != nil))
		if ok {
			w.checkSuperseded(call, "SetContext(new)")
		}
		return "ctx-new"
	case k < 9:
		if cx.cur != nil {
			call, ok := w.setContext("d", cx.cur, r.IntN(2) == 0, "same")
			if ok {
				w.checkSuperseded(call, "SetContext(same)")
			}
		}
		return "ctx-same"
	case k < 10:
		call, ok := w.clearContext("d")
		cx.cur, cx.curTag = nil, 0
		if ok {
			w.checkSuperseded(call, "ClearContext")
		}
		return "ctx-clear"
	case k < 11:
		if w.src != nil {
			if r.IntN(2) == 0 {
				*gen++
				call, ch, sup := w.swapState("d", *gen)
				w.watchWaitCh(call, ch)
				if sup {
					w.checkSuperseded(call, "SwapValue")
				}
				return "swap"
			}
			call, ch := w.resetStateRoutine("d")
			w.watchWaitCh(call, ch)
			w.checkSuperseded(call, "SetStateRoutine")
			return "setroutinefn"
		}
		return "noop"
	default:
		// the owner cancels the root context without telling the container
		if cx.cancel != nil {
			w.c.Rec("d", "cancel root context", nil)
			cx.cancel()
			cx.cur, cx.curTag, cx.cancel = nil, 0, nil
		}
		return "root-cancel"
	}
}

func c04BurstCase(c *mon.Case, state, retry bool) {
	r := c.Rng
	exitLat := 50 + r.IntN(300)
	seedB := r.Uint64()
	behave := func(n, gen int) (bool, int, error, bool) {
		x := mon.SubSeed(seedB, "b", uint64(n))
		switch x % 8 {
		case 0:
			if retry && n < 12 {
				return false, int(x>>8) % 40, fmt.Errorf("inst-error-%d", n), false
			}
			return true, exitLat, nil, false
		case 1:
			return false, int(x>>8) % 40, nil, false // succeeds at once
		default:
			return true, int(x>>8) % (2 * exitLat), nil, false // runs until cancelled, then takes a while to return
		}
	}
	w := newRtWorld(c, state, r.IntN(2) == 0, retry, behave)
	cx := &rtCtxs{}
	defer cx.cancelAll()
	gen := 0
	nBursts := 3 + r.IntN(6)
	for b := 0; b < nBursts; b++ {
		k := 2 + r.IntN(5)
		runningBefore := w.active.Load()
		for j := 0; j < k; j++ {
			c04Op(w, r, cx, &gen, true)
			if r.IntN(3) == 0 {
				runtime.Gosched()
			}
		}
		if runningBefore > 0 && k >= 2 {
			c.Count("supersessions_while_exiting", 1)
			c.NonTrivial()
		}
		// let the dust settle between bursts (sometimes only partially)
		if r.IntN(3) != 0 {
			if !w.settle() {
				c.Inconclusive("no quiescence between bursts")
				cx.cancelAll()
				return
			}
		} else {
			time.Sleep(time.Duration(r.IntN(exitLat)) * time.Microsecond)
		}
		if c.Violated() {
			break
		}
	}
	w.clearContext("d")
	cx.cancelAll()
	if !w.settle() {
		c.Inconclusive("no quiescence at the end")
	}
}

// c04GatedCase holds instance A inside its exit, issues k>=2 supersessions, reaches quiescence:
// nothing else may have entered; then releases A.
func c04GatedCase(c *mon.Case, state bool) {
	r := c.Rng
	var w *rtWorld
	behave := func(n, gen int) (bool, int, error, bool) {
		return true, 0, nil, n == 0 // the first instance returns only when released
	}
	w = newRtWorld(c, state, r.IntN(2) == 0, false, behave)
	cx := &rtCtxs{}
	defer cx.cancelAll()
	gen := 1
	ctx, tag := cx.fresh()
	w.setContext("d", ctx, false, fmt.Sprint("new#", tag))
	w.setGen("d", gen)
	if !mon.Quiesce(5 * time.Second) {
		c.Inconclusive("no quiescence at start")
		return
	}
	insts := w.instances()
	if len(insts) != 1 {
		c.Violate("liveness", w.kind()+"-routine-not-started", "after SetContext and SetRoutine/SetState %d instances have entered at quiescence, want 1", len(insts))
		return
	}
	k := 2 + r.IntN(4)
	var ops []string
	for j := 0; j < k; j++ {
		ops = append(ops, c04Op(w, r, cx, &gen, true))
	}
	c.Count("supersessions_while_exiting", 1)
	c.Count("gated_templates", 1)
	c.NonTrivial()
	if !mon.Quiesce(5 * time.Second) {
		w.releaseAll()
		c.Inconclusive("no quiescence while the first instance is held")
		return
	}
	if n := len(w.instances()); n != 1 && !c.Violated() {
		c.Violate("overlap", w.kind()+"-instances-overlap", "instance #0 is held inside its return path; after %v a second instance entered although #0 had not returned", ops)
	}
	w.releaseAll()
	w.clearContext("d")
	cx.cancelAll()
	if !mon.Quiesce(5 * time.Second) {
		c.Inconclusive("no quiescence at the end")
	}
}

// ---------------------------------------------------------------- C05

func runC05(w *mon.Worker) {
	mon.SetMaxSleep(150 * time.Microsecond)
	mon.SetProb(0.2, verifhook.BcastEnter, verifhook.BcastExit, verifhook.RoutineExecStart, verifhook.RoutineExecCall, verifhook.RoutineExecDone, verifhook.RoutineTimer)
	for i := 0; i < w.Share(w.Scale(3200, 80000)); i++ {
		state, retry, concurrent := i%3 != 0, i%4 == 0, i%5 != 0
		w.Case("survivor", map[string]any{"state": state, "retry": retry, "concurrent": concurrent}, func(c *mon.Case) { c05Case(c, state, retry, concurrent) })
	}
	mon.ClearProb()
	for i := 0; i < w.Share(w.Scale(64, 2000)); i++ {
		state := i%2 == 0
		w.Case("retry-swap", map[string]any{"state": state}, func(c *mon.Case) { c05RetrySwapCase(c, state) })
		w.Case("restart-after-swap", map[string]any{"state": state}, func(c *mon.Case) { c05RestartAfterSwapCase(c, state) })
		w.Case("stale-error-swap", map[string]any{"state": state}, func(c *mon.Case) { c05StaleErrorSwapCase(c, state) })
	}
}

func c05Case(c *mon.Case, state, retry, concurrent bool) {
	r := c.Rng
	seedB := r.Uint64()
	// generation -> behaviour class; the final judgement needs to know it
	classOf := func(gen int) uint64 { return mon.SubSeed(seedB, "g", uint64(gen)) % 6 }
	behave := func(n, gen int) (bool, int, error, bool) {
		x := mon.SubSeed(seedB, "n", uint64(n))
		lat := int(x>>8) % 200
		switch classOf(gen) {
		case 0:
			if n < 30 {
				return false, lat % 30, fmt.Errorf("inst-error-%d", n), false
			}
			return true, lat, nil, false
		case 1:
			return false, lat % 30, nil, false
		default:
			return true, lat, nil, false
		}
	}
	w := newRtWorld(c, state, r.IntN(2) == 0, retry, behave)
	cx := &rtCtxs{}
	defer cx.cancelAll()
	var execDone atomic.Int64
	var callsInFlight atomic.Int64
	mon.OnSite(verifhook.RoutineExecDone, func(any) {
		if callsInFlight.Load() > 0 {
			execDone.Add(1)
		}
	})
	defer mon.OnSite(verifhook.RoutineExecDone, nil)
	var overlapped atomic.Bool
	enterCall := func() {
		if callsInFlight.Add(1) > 1 {
			overlapped.Store(true)
		}
	}
	leaveCall := func() { callsInFlight.Add(-1) }

	// in retry cases calls are paced around the backoff period, so that timer callbacks race with them
	pace := func(rr interface{ IntN(int) int }) {
		if retry && rr.IntN(3) == 0 {
			time.Sleep(rtBackoff - 150*time.Microsecond + time.Duration(rr.IntN(300))*time.Microsecond)
		} else {
			runtime.Gosched()
		}
	}
	var genSeq atomic.Int64
	var rootCancelled atomic.Bool
	var lastGenRC atomic.Int64 // RoutineContainer: the single setter's last generation
	var ctxMu sync.Mutex       // the context changer is one goroutine; the mutex only publishes its fields
	nOps := 10 + r.IntN(40)
	ctxOps := func(actor string, rr interface{ IntN(int) int }, n int) {
		for i := 0; i < n; i++ {
			if rr.IntN(8) == 0 {
				// a waiter whose own context is already done: it gets context.Canceled (or the exit status) and leaves the container alone
				dctx, dcancel := context.WithCancel(context.Background())
				dcancel()
				if rr.IntN(2) == 0 {
					var dc2 context.CancelFunc
					dctx, dc2 = context.WithDeadline(context.Background(), time.Unix(1, 0))
					defer dc2()
				}
				c.Count("waitexited_with_done_context", 1)
				_ = w.waitExited(dctx, rr.IntN(2) == 0, nil)
			}
			enterCall()
			ctxMu.Lock()
			if len(cx.all) >= 2 && rr.IntN(6) == 0 {
				// the owner of a context the container no longer uses cancels it: nothing to do with the container any more
				c.Rec(actor, "cancel a context that was replaced earlier", nil)
				c.Count("replaced_context_cancelled", 1)
				cx.all[rr.IntN(len(cx.all)-1)]()
			}
			switch k := rr.IntN(10); {
			case k < 5:
				var ctx context.Context
				var tag int
				if rr.IntN(5) == 0 {
					// a different context with the same cancellation as the one the container has (a sibling carrying another value)
					if sctx, stag, ok := cx.sibling(); ok {
						ctx, tag = sctx, stag
						c.Count("sibling_context_calls", 1)
					}
				}
				if ctx == nil {
					ctx, tag = cx.fresh()
				}
				call, ok := w.setContext(actor, ctx, rr.IntN(2) == 0, fmt.Sprint("new#", tag))
				if ok {
					w.checkSuperseded(call, "SetContext(new)")
				}
			case k < 7:
				if cx.cur != nil {
					call, ok := w.setContext(actor, cx.cur, rr.IntN(2) == 0, "same")
					if ok {
						w.checkSuperseded(call, "SetContext(same)")
					}
				}
			case k < 9:
				call, ok := w.clearContext(actor)
				cx.cur, cx.curTag = nil, 0
				if ok {
					w.checkSuperseded(call, "ClearContext")
				}
			case rr.IntN(2) == 0:
				// a context that is already done: whatever ran under the previous context is superseded, nothing may run under this one
				kind := rr.IntN(2)
				ctx, tag := cx.freshDone(kind)
				rootCancelled.Store(true)
				c.Count("setcontext_done_context_calls", 1)
				w.setContext(actor, ctx, rr.IntN(2) == 0, fmt.Sprintf("new#%d(already done, kind %d)", tag, kind))
			default:
				if cx.cancel != nil {
					c.Rec(actor, "cancel root context", nil)
					rootCancelled.Store(true)
					cx.cancel()
					cx.cur, cx.curTag, cx.cancel = nil, 0, nil
				}
			}
			ctxMu.Unlock()
			leaveCall()
			pace(rr)
		}
	}
	// with a single goroutine writing the state, the stored state is known: what was set last, unless the
	// container's equivalence says it is the same as what it already held
	expState := 0
	checkStored := func(g int) {
		if w.src == nil {
			return
		}
		if w.cmp == nil || !w.cmp(expState, g) {
			expState = g
		}
		c.Count("stored_state_checks", 1)
		if got := w.src.GetState(); got != expState {
			c.Violate("survivor", "state-not-stored", "after SetState/SwapValue(%d) by the only writer GetState() = %d, want %d", g, got, expState)
		}
	}
	setOps := func(actor string, rr interface{ IntN(int) int }, n int, single bool) {
		for i := 0; i < n; i++ {
			enterCall()
			k := rr.IntN(10)
			switch {
			case k < 6:
				g := int(genSeq.Add(1))
				call, ch, sup := w.setGen(actor, g)
				if single {
					lastGenRC.Store(int64(g))
					checkStored(g)
				}
				w.watchWaitCh(call, ch)
				if sup {
					w.checkSuperseded(call, "SetRoutine/SetState")
				}
			case k < 7:
				call, _, sup := w.setGen(actor, 0)
				if single {
					lastGenRC.Store(0)
					checkStored(0)
				}
				if sup {
					w.checkSuperseded(call, "SetRoutine(nil)/SetState(empty)")
				}
			case k < 9 && w.src != nil:
				g := int(genSeq.Add(1))
				call, _, sup := w.swapState(actor, g)
				if single {
					checkStored(g)
				}
				if sup {
					w.checkSuperseded(call, "SwapValue")
				}
			case w.src != nil:
				call, _ := w.resetStateRoutine(actor)
				w.checkSuperseded(call, "SetStateRoutine")
			}
			leaveCall()
			pace(rr)
		}
	}
	restartOps := func(actor string, n int) {
		for i := 0; i < n; i++ {
			enterCall()
			call, ok := w.restart(actor)
			if ok {
				w.checkSuperseded(call, "RestartRoutine")
			}
			leaveCall()
			runtime.Gosched()
			runtime.Gosched()
		}
	}
	if concurrent {
		c.Count("concurrent_cases", 1)
		seeds := []uint64{r.Uint64(), r.Uint64(), r.Uint64(), r.Uint64(), r.Uint64()}
		mk := func(s uint64) *xorshift { return &xorshift{x: s | 1} }
		c.Go("ctx", func() { ctxOps("ctx", mk(seeds[0]), nOps/2+1) })
		nSetters := 1
		if w.src != nil {
			nSetters = 1 + r.IntN(3)
		}
		for s := 0; s < nSetters; s++ {
			s := s
			c.Go(fmt.Sprint("set", s), func() { setOps(fmt.Sprint("set", s), mk(seeds[1+s]), nOps/2+1, nSetters == 1) })
		}
		nRestart := nOps / 4
		c.Go("restart", func() { restartOps("restart", nRestart) })
		if !c.WaitActors(25 * time.Second) {
			c.Inconclusive("drivers did not finish")
			cx.cancelAll()
			return
		}
	} else {
		for i := 0; i < nOps; i++ {
			switch r.IntN(3) {
			case 0:
				ctxOps("d", r, 1)
			case 1:
				setOps("d", r, 1, true)
			default:
				restartOps("d", 1)
			}
		}
	}
	if overlapped.Load() || execDone.Load() > 0 {
		c.NonTrivial()
	}
	if !w.settle() {
		c.Inconclusive("no quiescence")
		cx.cancelAll()
		return
	}
	// ---- judgement at quiescence
	c.Count("quiescent_survivor_judgements", 1)
	var live []*rtInst
	all := w.instances()
	for _, in := range all {
		if in.exit.Load() == 0 && in.ctx.Err() == nil {
			live = append(live, in)
		}
	}
	ctxLive := cx.cur != nil && cx.cur.Err() == nil
	finalGen := int(lastGenRC.Load())
	if w.src != nil {
		finalGen = w.src.GetState()
	}
	desc := func() string {
		s := fmt.Sprintf("last context tag %d (live %v), final generation/state %d; live instances:", cx.curTag, ctxLive, finalGen)
		for _, in := range live {
			s += fmt.Sprintf(" #%d(gen %d, tag %d)", in.n, in.gen, in.tag)
		}
		return s
	}
	if len(live) > 1 {
		c.Violate("survivor", w.kind()+"-two-live-instances", "at quiescence %d instances have a live context: %s", len(live), desc())
		cx.cancelAll()
		return
	}
	if len(live) == 1 {
		c.Count("survivor_present", 1)
		in := live[0]
		switch {
		case !ctxLive:
			c.Violate("survivor", w.kind()+"-live-instance-without-context", "at quiescence an instance is live although the container has no live context: %s", desc())
		case finalGen == 0:
			c.Violate("survivor", w.kind()+"-live-instance-without-routine", "at quiescence an instance is live although the routine/state is empty: %s", desc())
		case in.tag != cx.curTag:
			c.Violate("survivor", w.kind()+"-survivor-wrong-context", "the surviving instance derives from context #%d, the container's current context is #%d: %s", in.tag, cx.curTag, desc())
		case in.gen != finalGen:
			c.Violate("survivor", w.kind()+"-survivor-stale-state", "the surviving instance was given generation/state %d, the stored one is %d: %s", in.gen, finalGen, desc())
		}
	} else {
		c.Count("survivor_absent", 1)
		if ctxLive && finalGen != 0 && !rootCancelled.Load() {
			// bounded liveness (not judged once the owner cancelled a root context behind the container's back:
			// the instance then exits with context.Canceled as an *error* status, which SetContext(restart=false) rightly does not restart): the latest generation must at least have been started
			started := false
			for _, in := range all {
				if in.gen == finalGen && in.tag == cx.curTag {
					started = true
				}
			}
			cl := classOf(finalGen)
			startedAny := false
			for _, in := range all {
				if in.gen == finalGen {
					startedAny = true
				}
			}
			// the newest instance of the current generation, if it is of the run-until-cancelled kind, was healthy and
			// running when something cancelled it; with a live container context every such call also starts a successor
			var lastOfGen *rtInst
			for _, in := range all {
				if in.gen == finalGen && (lastOfGen == nil || in.n > lastOfGen.n) {
					lastOfGen = in
				}
			}
			if !startedAny {
				c.Violate("survivor", w.kind()+"-current-routine-never-started", "at quiescence the container has a live context and a routine/state, but no instance of the current generation was ever started: %s", desc())
			} else if cl < 2 && lastOfGen != nil && lastOfGen.until.Load() {
				c.Count("healthy_instance_survival_checks", 1)
				c.Violate("survivor", w.kind()+"-current-routine-not-running", "instance #%d of the current generation was running (it only returns when cancelled), the container has a live context, yet it was cancelled and nothing was started in its place: %s", lastOfGen.n, desc())
			} else if cl >= 2 {
				_ = started
				c.Violate("survivor", w.kind()+"-current-routine-not-running", "the current generation runs until cancelled, the container has a live context, yet no live instance exists at quiescence: %s", desc())
			}
		}
	}
	w.clearContext("d")
	cx.cancelAll()
	if !w.settle() {
		c.Inconclusive("no quiescence at the end")
		return
	}
	for _, in := range w.instances() {
		if in.exit.Load() == 0 {
			c.Violate("survivor", w.kind()+"-instance-leaked", "after ClearContext and cancelling every root context instance #%d (gen %d) has still not returned at quiescence (context cancelled: %v)", in.n, in.gen, in.ctx.Err() != nil)
			break
		}
	}
}

type xorshift struct{ x uint64 }

func (s *xorshift) IntN(n int) int {
	s.x ^= s.x << 13
	s.x ^= s.x >> 7
	s.x ^= s.x << 17
	return int(s.x % uint64(n))
}

// ---------------------------------------------------------------- C14

func runC14(w *mon.Worker) {
	mon.SetMaxSleep(100 * time.Microsecond)
	mon.SetProb(0.1, verifhook.BcastEnter, verifhook.BcastExit, verifhook.RoutineExecDone, verifhook.RoutineTimer)
	for i := 0; i < w.Share(w.Scale(480, 15000)); i++ {
		state, retry := i%2 == 1, i%3 != 0
		w.Case("machine", map[string]any{"state": state, "retry": retry}, func(c *mon.Case) { c14Case(c, state, retry) })
	}
	mon.ClearProb()
	for i := 0; i < w.Share(w.Scale(96, 3000)); i++ {
		state := i%2 == 1
		w.Case("stale-timer", map[string]any{"state": state}, func(c *mon.Case) { c14TimerGateCase(c, state) })
		w.Case("restart-in-backoff", map[string]any{"state": state}, func(c *mon.Case) { c14RestartInBackoffCase(c, state) })
		w.Case("constructors", nil, c14ConstructorsCase)
		w.Case("backoff-gives-up", map[string]any{"state": state}, func(c *mon.Case) { c14BackoffStopCase(c, state) })
	}
}

const (
	ocSuccess = iota
	ocError
	ocUntilCancelled
	ocUntilCancelledToken
)

func c14Case(c *mon.Case, state, retry bool) {
	r := c.Rng
	seedB := r.Uint64()
	var genRuns sync.Map // gen -> *atomic.Int64
	outcomeOf := func(gen, run int) int {
		x := mon.SubSeed(seedB, "o", uint64(gen), uint64(run))
		switch x % 8 {
		case 0, 1:
			return ocSuccess
		case 2, 3, 4:
			if retry && run >= 3 {
				// bounded failure chains under retry
				if (x>>8)%2 == 0 {
					return ocSuccess
				}
				return ocUntilCancelled
			}
			return ocError
		case 5:
			return ocUntilCancelledToken
		default:
			return ocUntilCancelled
		}
	}
	behave := func(n, gen int) (bool, int, error, bool) {
		v, _ := genRuns.LoadOrStore(gen, new(atomic.Int64))
		run := int(v.(*atomic.Int64).Add(1)) - 1
		switch outcomeOf(gen, run) {
		case ocSuccess:
			return false, n % 3, nil, false
		case ocError:
			return false, n % 3, fmt.Errorf("error-inst-%d", n), false
		case ocUntilCancelledToken:
			return true, n % 3, fmt.Errorf("superseded-inst-%d", n), false
		default:
			return true, n % 3, nil, false
		}
	}
	w := newRtWorld(c, state, false, retry, behave)
	cx := &rtCtxs{}
	defer cx.cancelAll()
	gen := 0
	var lastSetStamp int64
	sawSuccess, sawFailure, sawRestart := false, false, false

	type opRec struct {
		stamp, ret     int64
		restartClass   bool // RestartRoutine or SetContext(restart=true)
		setClass       bool
		restartRoutine bool
		ctxChange      bool
	}
	var opRecs []opRec
	var lastOpRet int64
	// status of the current record, from observations
	type status struct {
		kind string // none idle running success failed superseded
		inst *rtInst
	}
	current := func() status {
		if gen == 0 {
			return status{kind: "none"}
		}
		var last *rtInst
		for _, in := range w.instances() {
			if in.gen == gen && in.enter > lastSetStamp {
				last = in
			}
		}
		if last != nil && last.exit.Load() != 0 {
			for _, o := range opRecs {
				if o.ret > last.pre && (o.restartClass || o.setClass || o.ctxChange) {
					// something happened since that exit which this observation does not reflect
					return status{kind: "unknown", inst: last}
				}
			}
		}
		switch {
		case last == nil:
			return status{kind: "idle"}
		case last.exit.Load() == 0:
			return status{kind: "running", inst: last}
		case last.superseded:
			return status{kind: "superseded", inst: last}
		case last.err == nil:
			return status{kind: "success", inst: last}
		default:
			return status{kind: "failed", inst: last}
		}
	}
	ctxLive := func() bool { return cx.cur != nil }
	entriesSince := func(stamp int64) (n int) {
		for _, in := range w.instances() {
			if in.enter > stamp {
				n++
			}
		}
		return
	}
	// pending WaitExited calls
	type waiter struct {
		call     int64
		rinr     bool
		ctx      context.Context
		cancel   context.CancelFunc
		cancelAt int64
		done     atomic.Bool
		err      error
		ret      int64
	}
	var waiters []*waiter
	startWaiter := func(rinr bool) *waiter {
		wt := &waiter{rinr: rinr}
		wt.ctx, wt.cancel = context.WithCancel(context.Background())
		wt.call = c.Rec("waiter", fmt.Sprint("call WaitExited returnIfNotRunning=", rinr), nil)
		go func() {
			wt.err = w.waitExited(wt.ctx, rinr, nil)
			wt.ret = c.Rec("waiter", "ret WaitExited", fmt.Sprint(wt.err))
			wt.done.Store(true)
		}()
		waiters = append(waiters, wt)
		return wt
	}
	judgeWaiter := func(wt *waiter) {
		c.Count("waitexited_returns_judged", 1)
		if wt.err == context.Canceled && wt.cancelAt != 0 && wt.cancelAt < wt.ret {
			return
		}
		if wt.err == nil {
			// nil: a success exit of a current instance, or (returnIfNotRunning) nothing running at some point of the call
			return
		}
		// an error token: must belong to a non-superseded instance that exited before the return
		for _, in := range w.instances() {
			if in.err != nil && in.err.Error() == wt.err.Error() {
				if in.superseded {
					c.Violate("machine", "waitexited-returned-superseded-error", "WaitExited (call %d, return %d) returned %v, the error of instance #%d which had been superseded (its context was cancelled before it returned)", wt.call, wt.ret, wt.err, in.n)
				} else if e := in.exit.Load(); e == 0 || e > wt.ret {
					c.Violate("machine", "waitexited-returned-before-exit", "WaitExited returned %v at %d before instance #%d had exited (%d)", wt.err, wt.ret, in.n, e)
				}
				return
			}
		}
		c.Violate("machine", "waitexited-foreign-error", "WaitExited returned %v, which is no instance's error", wt.err)
	}
	settleAndCollect := func() bool {
		if !w.settle() {
			c.Inconclusive("no quiescence")
			return false
		}
		c.Count("settle_points_judged", 1)
		rest := waiters[:0]
		for _, wt := range waiters {
			if wt.done.Load() {
				judgeWaiter(wt)
			} else {
				rest = append(rest, wt)
			}
		}
		waiters = rest
		// retry configured: a current instance that failed must have been run again by now
		for _, in := range w.instances() {
			if !in.clean && in.exit.Load() != 0 && in.pre > lastOpRet {
				in.clean = true
			}
		}
		if st := current(); retry && ctxLive() && st.kind == "failed" && st.inst.pre > lastOpRet {
			c.Violate("machine", "failed-routine-not-retried", "retry is configured, the container has a live context, yet at quiescence (>= 30 backoff periods later) the current routine's last instance #%d failed with %v and was not run again", st.inst.n, st.inst.err)
			return false
		}
		return true
	}

	settled := true
	nOps := 14 + r.IntN(30)
	if !retry {
		nOps += 20
	}
	var oplog []string
	for i := 0; i < nOps && !c.Violated(); i++ {
		pre := current()
		preLive := ctxLive()
		preResets := 0
		if w.bo != nil {
			w.bo.mu.Lock()
			preResets = w.bo.resets
			w.bo.mu.Unlock()
		}
		var callStamp int64
		op := ""
		restartClass, setClass, restartTrue := false, false, false
		required, forbidden := false, false
		switch k := r.IntN(14); {
		case k < 3:
			gen++
			op = fmt.Sprint("Set(", gen, ")")
			callStamp, _, _ = w.setGen("d", gen)
			lastSetStamp = callStamp
			setClass = true
		case k < 4:
			op = "Set(empty)"
			callStamp, _, _ = w.setGen("d", 0)
			gen = 0
			lastSetStamp = callStamp
			setClass = true
		case k < 7:
			op = "RestartRoutine"
			var ok bool
			callStamp, ok = w.restart("d")
			restartClass = true
			sawRestart = true
			if ok && gen != 0 && preLive {
				required = true
			}
			if gen != 0 && preLive && (pre.kind == "failed" || pre.kind == "success") && !ok {
				c.Violate("machine", "restart-refused", "RestartRoutine returned false although a routine is set and the context is live (status %s)", pre.kind)
			}
		case k < 9:
			restart := r.IntN(2) == 0
			ctx, tag := cx.fresh()
			op = fmt.Sprint("SetContext(new#", tag, ",restart=", restart, ")")
			callStamp, _ = w.setContext("d", ctx, restart, fmt.Sprint("new#", tag))
			if pre.kind == "failed" && !retry {
				required, forbidden = restart, !restart
			}
			if pre.kind == "success" {
				forbidden = true
			}
			if pre.kind == "running" {
				// a routine that is running (whatever its predecessors returned) moves over to the new context
				required = true
			}
			if restart {
				sawRestart = true
				restartTrue = true
			}
		case k < 11:
			if cx.cur == nil {
				continue
			}
			restart := r.IntN(2) == 0
			op = fmt.Sprint("SetContext(same,restart=", restart, ")")
			callStamp, _ = w.setContext("d", cx.cur, restart, "same")
			if pre.kind == "failed" && !retry {
				required, forbidden = restart, !restart
			}
			if pre.kind == "running" {
				// the same context again leaves a running routine alone, with either restart flag
				forbidden = true
			}
			if pre.kind == "success" {
				forbidden = true
			}
			if restart {
				sawRestart = true
				restartTrue = true
			}
		case k < 12:
			op = "ClearContext"
			callStamp, _ = w.clearContext("d")
			cx.cur, cx.curTag = nil, 0
			forbidden = true
		case k < 13:
			op = "SetContext(nil)"
			callStamp, _ = w.setContext("d", nil, r.IntN(2) == 0, "nil")
			cx.cur, cx.curTag = nil, 0
			forbidden = true
		default:
			op = "WaitExited"
			callStamp = c.Stamp()
			startWaiter(r.IntN(2) == 0)
		}
		oplog = append(oplog, op+"["+pre.kind+"]")
		opRecs = append(opRecs, opRec{stamp: callStamp, restartClass: restartClass || restartTrue, setClass: setClass, restartRoutine: restartClass,
			ctxChange: len(op) > 10 && op[:10] == "SetContext" || op == "ClearContext"})
		lastOpRet = c.Stamp()
		opRecs[len(opRecs)-1].ret = lastOpRet
		wasSettled := settled
		if retry && r.IntN(3) == 0 {
			// tight: the next call lands inside the backoff interval of whatever just failed
			settled = false
			if r.IntN(2) == 0 {
				mon.Quiesce(5 * time.Second)
			}
			continue
		}
		if !settleAndCollect() {
			break
		}
		settled = true
		if !wasSettled {
			// expectations per call need a settled state before the call
			continue
		}
		n := entriesSince(callStamp)
		post := current()
		switch post.kind {
		case "success":
			sawSuccess = true
		case "failed":
			sawFailure = true
		}
		if pre.kind == "failed" {
			sawFailure = true
		}
		if forbidden && !setClass && !restartClass {
			c.Count("forbidden_rerun_windows", 1)
			if n != 0 {
				c.Violate("machine", "routine-rerun-without-cause", "%s with the current routine in status %q caused %d new instance entries; the documented machine allows none here. History: %v", op, pre.kind, n, oplog)
				break
			}
		}
		if required && ctxLive() {
			if n == 0 {
				c.Violate("machine", "routine-not-rerun", "%s with the current routine in status %q must run it again, but no instance entered by quiescence. History: %v", op, pre.kind, oplog)
				break
			}
			c.Count("required_reruns_seen", 1)
		}
		// backoff reset by a success
		if w.bo != nil {
			w.bo.mu.Lock()
			resets := w.bo.resets
			w.bo.mu.Unlock()
			succ := 0
			for _, in := range w.instances() {
				if in.enter > callStamp && in.exit.Load() != 0 && !in.superseded && in.err == nil {
					succ++
				}
			}
			if succ > 0 {
				if resets-preResets < succ {
					c.Violate("machine", "backoff-not-reset-by-success", "%d current instances succeeded during %s but the backoff was reset %d times", succ, op, resets-preResets)
					break
				}
				c.Count("backoff_resets_seen", int64(succ))
			}
		}
		// WaitExited against a settled state
		if r.IntN(3) == 0 {
			rinr := r.IntN(2) == 0
			wt := startWaiter(rinr)
			if !mon.Quiesce(10 * time.Second) {
				c.Inconclusive("no quiescence for WaitExited")
				break
			}
			st := current()
			mustReturn := ctxLive() && gen != 0 && (st.kind == "success" || st.kind == "failed")
			mustBlock := ctxLive() && gen != 0 && st.kind == "running"
			oplog = append(oplog, fmt.Sprint("WaitExited(", rinr, ")[", st.kind, "]"))
			if mustReturn {
				if !wt.done.Load() {
					if mon.QuiesceConfirmed(50*time.Millisecond, 10*time.Second) && !wt.done.Load() {
						c.Violate("machine", "waitexited-blocked-after-exit", "WaitExited(returnIfNotRunning=%v) is blocked at quiescence although the current instance #%d has exited (status %s). History: %v", rinr, st.inst.n, st.kind, oplog)
						wt.cancelAt = c.Stamp()
						wt.cancel()
						break
					}
				}
				want := st.inst.err
				if wt.done.Load() && wt.err != want && !(wt.err != nil && want != nil && wt.err.Error() == want.Error()) {
					c.Violate("machine", "waitexited-wrong-result", "WaitExited returned %v, the current instance #%d exited with %v. History: %v", wt.err, st.inst.n, want, oplog)
					break
				}
			}
			if mustBlock && wt.done.Load() {
				c.Violate("machine", "waitexited-returned-while-running", "WaitExited(returnIfNotRunning=%v) returned %v while the current instance #%d is still running. History: %v", rinr, wt.err, st.inst.n, oplog)
				break
			}
			if !wt.done.Load() && r.IntN(2) == 0 {
				wt.cancelAt = c.Stamp()
				wt.cancel()
			}
		}
	}
	c.Mix(mon.HashBytes([]byte(fmt.Sprint(oplog))))
	if sawSuccess && sawFailure && sawRestart {
		c.NonTrivial()
	}
	// wind down
	w.clearContext("d")
	cx.cancelAll()
	for _, wt := range waiters {
		if wt.cancelAt == 0 {
			wt.cancelAt = c.Stamp()
		}
		wt.cancel()
	}
	if !w.settle() {
		c.Inconclusive("no quiescence at the end")
		return
	}
	for _, wt := range waiters {
		if wt.done.Load() {
			judgeWaiter(wt)
		} else if !c.Violated() {
			c.Violate("machine", "waitexited-ignores-cancel", "a WaitExited call is still blocked at quiescence after its context was cancelled")
		}
	}
	// every re-run needs a cause: after a success only RestartRoutine or a new routine/state,
	// after an error also SetContext(restart=true) or (with retry) the backoff timer
	all := w.instances()
	for _, in := range all {
		var pv *rtInst
		for _, o := range all {
			if o.gen == in.gen && o.enter < in.enter && (pv == nil || o.enter > pv.enter) {
				pv = o
			}
		}
		if pv == nil || pv.superseded || pv.exit.Load() == 0 || pv.exit.Load() > in.enter {
			continue
		}
		cause := false
		for _, o := range opRecs {
			if o.ret > pv.pre && o.stamp < in.enter {
				if pv.err == nil && (o.restartRoutine || o.setClass) {
					cause = true
				}
				if pv.err != nil && (o.restartClass || o.setClass) {
					cause = true
				}
			}
		}
		if pv.err != nil && retry {
			cause = true
		}
		if !cause {
			sig := "routine-rerun-without-cause"
			if pv.err == nil && !pv.clean {
				for _, o := range opRecs {
					if o.ctxChange && o.ret > pv.pre && o.stamp < in.enter {
						// the context changed between the routine's return and the container's exit bookkeeping
						sig = "routine-success-lost-to-concurrent-context-change"
					}
				}
			}
			c.Violate("machine", sig, "instance #%d (gen %d) entered at %d although the previous instance #%d of the same routine had returned %v at %d and neither RestartRoutine, a new routine/state%s happened in between. History: %v",
				in.n, in.gen, in.enter, pv.n, pv.err, pv.exit.Load(), map[bool]string{true: ", SetContext(restart=true) nor a retry timer", false: ""}[pv.err != nil], oplog)
			break
		}
	}
	// the backoff advances only when a current instance failed
	if w.bo != nil {
		fails := 0
		for _, in := range all {
			if in.exit.Load() != 0 && !in.superseded && in.err != nil {
				fails++
			}
		}
		w.bo.mu.Lock()
		nexts := w.bo.nexts
		w.bo.mu.Unlock()
		if nexts > fails {
			c.Violate("machine", "backoff-advanced-without-failure", "NextBackOff was called %d times but only %d current (non-superseded) instances returned an error: superseded instances consume the retry backoff. History: %v", nexts, fails, oplog)
		}
	}
	// exit callbacks: each exit of a current (non-superseded) instance is reported exactly once to each callback
	w.exitCbMu.Lock()
	defer w.exitCbMu.Unlock()
	for ci, list := range [][]error{w.exitCbs, w.exitCbs2} {
		cnt := map[string]int{}
		nils := 0
		for _, e := range list {
			if e == nil {
				nils++
			} else {
				cnt[e.Error()]++
			}
		}
		succ, uncleanNil := 0, 0
		for _, in := range w.instances() {
			if in.exit.Load() == 0 {
				continue
			}
			switch {
			case in.superseded:
				if in.err == nil {
					uncleanNil++ // may be reported zero times or once
				}
				if in.err != nil && in.err != context.Canceled && cnt[in.err.Error()] > 1 {
					c.Violate("machine", "exit-callback-duplicate", "exit callback %d was called %d times for superseded instance #%d", ci, cnt[in.err.Error()], in.n)
				}
			case !in.clean:
				// returned while an API call was in flight or before the next call: whether it was still
				// current at its bookkeeping is unknowable from outside; at most once
				if in.err == nil {
					uncleanNil++
				} else if cnt[in.err.Error()] > 1 {
					c.Violate("machine", "exit-callback-duplicate", "exit callback %d was called %d times for instance #%d", ci, cnt[in.err.Error()], in.n)
				}
			case in.err == nil:
				succ++
			default:
				c.Count("exit_callbacks_checked", 1)
				if k := cnt[in.err.Error()]; k != 1 {
					c.Violate("machine", "exit-callback-count", "exit callback %d was called %d times with the error of current instance #%d (%v), want exactly once. History: %v", ci, k, in.n, in.err, oplog)
				}
			}
		}
		if nils < succ || nils > succ+uncleanNil {
			c.Violate("machine", "exit-callback-count", "exit callback %d was called %d times with nil, but %d current instances returned nil in settled windows (+%d in unsettled ones). History: %v", ci, nils, succ, uncleanNil, oplog)
		}
		c.Count("exit_callbacks_checked", int64(succ))
	}
}

// c14TimerGateCase holds a fired retry-timer callback before it takes the lock, lets the driver
// restart or replace the routine and the new run finish, then releases the callback: nothing may be re-run.
func c14TimerGateCase(c *mon.Case, state bool) {
	r := c.Rng
	variant := r.IntN(3) // 0 RestartRoutine, 1 new routine/state, 2 SetContext(new, restart=true)
	second := r.IntN(2)  // outcome of the run that follows: 0 success, 1 error
	behave := func(n, gen int) (bool, int, error, bool) {
		switch {
		case n == 0:
			return false, 0, fmt.Errorf("error-inst-%d", n), false
		case n == 1 && second == 0:
			return false, 0, nil, false
		case n == 1:
			return false, 0, fmt.Errorf("error-inst-%d", n), false
		case second == 1 && n == 2:
			return false, 0, nil, false // the legitimate retry of the second failure succeeds
		default:
			return false, 0, nil, false
		}
	}
	w := newRtWorld(c, state, false, true, behave)
	cx := &rtCtxs{}
	defer cx.cancelAll()
	var g *mon.Gate
	if w.src != nil {
		ptr := mon.FieldPtr(w.src, "rc")
		if ptr == 0 {
			c.Inconclusive("cannot locate the inner RoutineContainer")
			return
		}
		g = mon.NewGatePtr(verifhook.RoutineTimer, ptr, 1)
	} else {
		g = mon.NewGate(verifhook.RoutineTimer, w.rc, 1)
	}
	ctx, tag := cx.fresh()
	w.setContext("d", ctx, false, fmt.Sprint("new#", tag))
	w.setGen("d", 1)
	if !g.WaitArrived(5 * time.Second) {
		g.Release()
		c.Inconclusive("retry timer never fired")
		return
	}
	// the callback of the timer armed by instance #0's failure is parked before the lock
	var what string
	switch variant {
	case 0:
		what = "RestartRoutine"
		w.restart("d")
	case 1:
		what = "SetRoutine/SetState(new)"
		w.setGen("d", 2)
	default:
		what = "SetContext(new, restart=true)"
		ctx2, tag2 := cx.fresh()
		w.setContext("d", ctx2, true, fmt.Sprint("new#", tag2))
	}
	if !mon.Quiesce(5 * time.Second) {
		g.Release()
		c.Inconclusive("no quiescence while the timer callback is parked")
		return
	}
	before := len(w.instances())
	c.Rec("d", "release the parked retry-timer callback", nil)
	g.Release()
	c.Count("gated_timer_templates", 1)
	c.NonTrivial()
	c.Mix(uint64(variant)<<4 | uint64(second))
	if !w.settle() || g.TimedOut.Load() {
		c.Inconclusive("no quiescence after release")
		return
	}
	insts := w.instances()
	want := 2
	if second == 1 {
		want = 3 // the second failure is legitimately retried once (and then succeeds)
	}
	if before != 2 && !(second == 1 && before == 3) {
		c.Inconclusive(fmt.Sprintf("unexpected instance count %d before release", before))
		return
	}
	if len(insts) != want {
		c.Violate("machine", "routine-rerun-by-stale-retry-timer", "instance #0 failed and armed a retry timer; its callback was held before the lock while %s ran and the next run returned (%s); after releasing the callback %d instances have entered in total, the documented machine gives %d (a stale timer re-ran a routine it did not belong to)",
			what, map[int]string{0: "success", 1: "an error, retried once"}[second], len(insts), want)
	}
	w.clearContext("d")
}

// c14RestartInBackoffCase: the retry interval is an hour, so within the case the timer never fires. A failed
// instance must be run again by RestartRoutine and by SetContext(restart=true) (same or new context) without
// waiting for the backoff, and by nothing else (SetContext(restart=false) with the same context, WaitExited).
func c14RestartInBackoffCase(c *mon.Case, state bool) {
	r := c.Rng
	variant := r.IntN(5)
	errKind := r.IntN(3)
	behave := func(n, gen int) (bool, int, error, bool) {
		if n == 0 {
			switch errKind {
			case 1:
				return false, 0, context.Canceled, false // an error like any other while the instance's context is live
			case 2:
				return false, 0, fmt.Errorf("error-inst-0: %w", context.Canceled), false
			}
			return false, 0, fmt.Errorf("error-inst-%d", n), false
		}
		return false, 0, nil, false
	}
	w := newRtWorldBackoff(c, state, false, true, behave, time.Hour)
	cx := &rtCtxs{}
	defer cx.cancelAll()
	ctx, tag := cx.fresh()
	w.setContext("d", ctx, false, fmt.Sprint("new#", tag))
	w.setGen("d", 1)
	if !mon.Quiesce(5 * time.Second) {
		c.Inconclusive("no quiescence after the first failure")
		return
	}
	if n := len(w.instances()); n != 1 {
		c.Violate("machine", "routine-retried-before-backoff", "%d instances entered although the first failed and the retry interval is one hour", n)
		return
	}
	werr := w.waitExited(context.Background(), r.IntN(2) == 0, nil)
	if in := w.instances()[0]; werr == nil || werr.Error() != in.err.Error() {
		c.Violate("machine", "waitexited-wrong-result", "WaitExited returned %v, the current instance #0 exited with %v (retry pending)", werr, in.err)
	}
	var what string
	want := 2
	switch variant {
	case 0:
		what = "RestartRoutine"
		w.restart("d")
	case 1:
		what = "SetContext(same, restart=true)"
		w.setContext("d", ctx, true, fmt.Sprint("same#", tag))
	case 2:
		what = "SetContext(new, restart=true)"
		ctx2, tag2 := cx.fresh()
		w.setContext("d", ctx2, true, fmt.Sprint("new#", tag2))
	case 3:
		what = "SetContext(same, restart=false)"
		w.setContext("d", ctx, false, fmt.Sprint("same#", tag))
		want = 1
	default:
		what = "WaitExited only"
		want = 1
	}
	c.Count("restart_in_backoff_templates", 1)
	c.NonTrivial()
	c.Mix(uint64(variant)<<4 | uint64(errKind))
	if !mon.Quiesce(5 * time.Second) {
		c.Inconclusive("no quiescence after the restart request")
		return
	}
	insts := w.instances()
	if len(insts) != want {
		sig := "failed-routine-not-rerun-by-restart-request"
		if len(insts) > want {
			sig = "routine-rerun-without-cause"
		}
		c.Violate("machine", sig, "instance #0 failed with %v (retry interval one hour, so no timer fires within the case); after %s %d instances have entered in total, the documented machine gives %d", insts[0].err, what, len(insts), want)
	}
	if want == 2 && len(insts) == 2 {
		if werr := w.waitExited(context.Background(), false, nil); werr != nil {
			c.Violate("machine", "waitexited-wrong-result", "WaitExited returned %v, the current instance #1 returned nil", werr)
		}
	}
	w.clearContext("d")
}

// c14ConstructorsCase: every documented constructor honours its options. The routine fails once and then succeeds;
// with retry configured it is run exactly twice, and each exit callback sees the error and then nil.
type fakeClock struct{ t time.Time }

func (f *fakeClock) Now() time.Time { return f.t }

func c14ConstructorsCase(c *mon.Case) {
	r := c.Rng
	kind := r.IntN(6)
	retryKind := r.IntN(2)
	// "automatically after each backoff interval": a retry configuration without max_elapsed_time never gives up, however
	// long the routine has been failing (decided on a virtual clock)
	cfg := &ubackoff.Backoff{BackoffKind: ubackoff.BackoffKind_BackoffKind_EXPONENTIAL, Exponential: &ubackoff.Exponential{InitialInterval: 1 + uint32(r.IntN(50)), MaxInterval: 100}}
	if eb, ok := cfg.Construct().(*cbackoff.ExponentialBackOff); ok {
		fc := &fakeClock{t: time.Unix(1_000_000, 0)}
		eb.Clock = fc
		eb.Reset()
		for i := 0; i < 5; i++ {
			fc.t = fc.t.Add(6 * time.Hour)
			if eb.NextBackOff() == cbackoff.Stop {
				c.Violate("machine", "retry-gives-up-without-max-elapsed-time", "an exponential retry configuration without max_elapsed_time returns Stop after %d virtual hours of failing: the routine would never be run again", 6*(i+1))
				break
			}
		}
		c.Count("virtual_clock_backoff_checks", 1)
	}
	var mu sync.Mutex
	var cb1, cb2 []error
	var entries atomic.Int64
	opts := []routine.Option{
		routine.WithExitCb(func(err error) { mu.Lock(); cb1 = append(cb1, err); mu.Unlock() }),
		routine.WithExitCb(func(err error) { mu.Lock(); cb2 = append(cb2, err); mu.Unlock() }),
	}
	if retryKind == 0 && r.IntN(3) == 0 {
		// an interval of zero means "retry at once", not "do not retry"
		opts = append(opts, routine.WithBackoff(&cbackoff.ZeroBackOff{}))
	} else if retryKind == 0 {
		opts = append(opts, routine.WithBackoff(cbackoff.NewConstantBackOff(rtBackoff)))
	} else {
		opts = append(opts, routine.WithRetry(&ubackoff.Backoff{BackoffKind: ubackoff.BackoffKind_BackoffKind_CONSTANT, Constant: &ubackoff.Constant{Interval: 1}}))
	}
	if r.IntN(2) == 0 {
		// option order must not matter
		opts[0], opts[2] = opts[2], opts[0]
	}
	retryOff := r.IntN(5) == 0
	if retryOff {
		// a later WithRetry(nil) switches retrying off again
		opts = append(opts, routine.WithRetry(nil))
		c.Count("constructor_templates_retry_switched_off", 1)
	}
	errFirst := fmt.Errorf("error-inst-0")
	switch r.IntN(3) {
	case 1:
		// a routine may fail with context.Canceled (or wrap it) although its own context is live: a failure like any other
		errFirst = context.Canceled
	case 2:
		errFirst = fmt.Errorf("error-inst-0: %w", context.Canceled)
	}
	run := func(ctx context.Context) error {
		n := entries.Add(1)
		c.Rec("inst", fmt.Sprint("enter ", n), nil)
		if n == 1 {
			return errFirst
		}
		return nil
	}
	ctx, cancel := context.WithCancel(context.Background())
	defer cancel()
	names := []string{"NewRoutineContainer", "NewRoutineContainerWithLogger", "NewStateRoutineContainer", "NewStateRoutineContainerWithLogger", "NewStateRoutineContainerVT", "NewStateRoutineContainerWithLoggerVT"}
	var clear func() bool
	switch kind {
	case 0, 1:
		var rc *routine.RoutineContainer
		if kind == 0 {
			rc = routine.NewRoutineContainer(opts...)
		} else {
			rc = routine.NewRoutineContainerWithLogger(discardLogger(), opts...)
		}
		rc.SetRoutine(run)
		rc.SetContext(ctx, false)
		clear = rc.ClearContext
	case 2, 3:
		var src *routine.StateRoutineContainer[int]
		if kind == 2 {
			src = routine.NewStateRoutineContainer[int](nil, opts...)
		} else {
			src = routine.NewStateRoutineContainerWithLogger[int](nil, discardLogger(), opts...)
		}
		src.SetStateRoutine(func(ctx context.Context, st int) error { return run(ctx) })
		src.SetState(7)
		src.SetContext(ctx, false)
		clear = src.ClearContext
	default:
		var src *routine.StateRoutineContainer[*ubackoff.Backoff]
		if kind == 4 {
			src = routine.NewStateRoutineContainerVT[*ubackoff.Backoff](opts...)
		} else {
			src = routine.NewStateRoutineContainerWithLoggerVT[*ubackoff.Backoff](discardLogger(), opts...)
		}
		src.SetStateRoutine(func(ctx context.Context, st *ubackoff.Backoff) error { return run(ctx) })
		src.SetState(&ubackoff.Backoff{BackoffKind: ubackoff.BackoffKind_BackoffKind_CONSTANT})
		// an equal (EqualVT) state must not restart the routine
		src.SetState(&ubackoff.Backoff{BackoffKind: ubackoff.BackoffKind_BackoffKind_CONSTANT})
		src.SetContext(ctx, false)
		clear = src.ClearContext
	}
	c.Count("constructor_templates", 1)
	c.NonTrivial()
	c.Mix(uint64(kind)<<1 | uint64(retryKind))
	prev := int64(-1)
	for i := 0; i < 20; i++ {
		if !mon.SettleTimers(rtBackoff, 30, 15*time.Millisecond, 10*time.Second) {
			c.Inconclusive("no quiescence")
			return
		}
		if n := entries.Load(); n == prev {
			break
		} else {
			prev = n
		}
	}
	mu.Lock()
	g1, g2 := append([]error(nil), cb1...), append([]error(nil), cb2...)
	mu.Unlock()
	if retryOff {
		if n := entries.Load(); n != 1 {
			c.Violate("machine", "routine-rerun-without-cause", "%s with a retry option (kind %d) followed by WithRetry(nil): retry is not configured, the failed routine must not be run again; it ran %d times", names[kind], retryKind, n)
		} else if len(g1) != 1 || g1[0] != errFirst || len(g2) != 1 || g2[0] != errFirst {
			c.Violate("machine", "exit-callback-count", "%s: the two exit callbacks saw %v and %v, want [%v] each", names[kind], g1, g2, errFirst)
		}
		clear()
		return
	}
	if n := entries.Load(); n != 2 {
		sig := "failed-routine-not-retried"
		if n > 2 {
			sig = "routine-rerun-without-cause"
		}
		c.Violate("machine", sig, "%s with retry configured (kind %d): the routine fails once and then succeeds, so it must run exactly twice; it ran %d times", names[kind], retryKind, n)
	}
	okCb := func(g []error) bool { return len(g) == 2 && g[0] == errFirst && g[1] == nil }
	if entries.Load() == 2 && (!okCb(g1) || !okCb(g2)) {
		c.Violate("machine", "exit-callback-count", "%s: the two exit callbacks saw %v and %v, want [%v <nil>] each", names[kind], g1, g2, errFirst)
	}
	clear()
}

// c05RetrySwapCase: the routine failed and a retry is pending (40 ms backoff); the container's context is replaced
// (restart=false) while the old context stays alive. Whatever runs afterwards runs under the new context.
func c05RetrySwapCase(c *mon.Case, state bool) {
	behave := func(n, gen int) (bool, int, error, bool) {
		if n == 0 {
			return false, 0, fmt.Errorf("error-inst-0"), false
		}
		return true, 0, nil, false
	}
	bo := 40 * time.Millisecond
	w := newRtWorldBackoff(c, state, false, true, behave, bo)
	cx := &rtCtxs{}
	defer cx.cancelAll()
	ctxA, tagA := cx.fresh()
	w.setContext("d", ctxA, false, fmt.Sprint("new#", tagA))
	w.setGen("d", 1)
	if !mon.Quiesce(5 * time.Second) {
		c.Inconclusive("no quiescence after the failure")
		return
	}
	if ins := w.instances(); len(ins) != 1 || ins[0].exit.Load() == 0 {
		c.Inconclusive("the first instance did not fail in time")
		return
	}
	ctxB, tagB := cx.fresh()
	w.setContext("d", ctxB, false, fmt.Sprint("new#", tagB))
	c.Count("retry_swap_templates", 1)
	c.NonTrivial()
	if !mon.SettleTimers(bo, 3, 3*bo, 10*time.Second) {
		c.Inconclusive("no quiescence after the backoff")
		return
	}
	for _, in := range w.instances() {
		if in.exit.Load() == 0 && in.ctx.Err() == nil && in.tag != tagB {
			c.Violate("survivor", w.kind()+"-survivor-wrong-context", "the routine failed under context #%d; the context was replaced by #%d (restart=false) inside the backoff interval while #%d stayed alive; at quiescence instance #%d is live under context #%d", tagA, tagB, tagA, in.n, in.tag)
		}
	}
	call, _ := w.clearContext("d")
	w.checkSuperseded(call, "ClearContext")
}

// c14BackoffStopCase: the backoff gives up (Stop) after two retries of a routine that always fails. Nothing but a
// success resets the backoff: after RestartRoutine the routine runs (and fails) once more and is not retried again.
func c14BackoffStopCase(c *mon.Case, state bool) {
	behave := func(n, gen int) (bool, int, error, bool) { return false, 0, fmt.Errorf("error-inst-%d", n), false }
	w := newRtWorldBackoff(c, state, false, true, behave, rtBackoff)
	w.bo.mu.Lock()
	w.bo.stopAfter = 2
	w.bo.mu.Unlock()
	cx := &rtCtxs{}
	defer cx.cancelAll()
	ctx, tag := cx.fresh()
	w.setContext("d", ctx, false, fmt.Sprint("new#", tag))
	w.setGen("d", 1)
	if !w.settle() {
		c.Inconclusive("no quiescence")
		return
	}
	c.Count("backoff_stop_templates", 1)
	c.NonTrivial()
	if n := len(w.instances()); n != 3 {
		c.Violate("machine", "failed-routine-not-retried", "a routine that always fails with a backoff that gives up after two intervals ran %d times, want 3 (first run + two retries)", n)
		return
	}
	w.bo.mu.Lock()
	resets0 := w.bo.resets
	w.bo.mu.Unlock()
	w.restart("d")
	if !w.settle() {
		c.Inconclusive("no quiescence after RestartRoutine")
		return
	}
	w.bo.mu.Lock()
	resets1 := w.bo.resets
	w.bo.mu.Unlock()
	if n := len(w.instances()); n != 4 || resets1 != resets0 {
		c.Violate("machine", "backoff-reset-without-success", "the backoff had given up; RestartRoutine ran the routine once more (it failed again); in total it ran %d times (want 4: the exhausted backoff must not start over) and Reset was called %d time(s) although no run succeeded", n, resets1-resets0)
	}
	w.clearContext("d")
}

// c05RestartAfterSwapCase: the routine has returned (nil or an error) under context A; the container is given context B
// (restart=false, A stays alive); RestartRoutine then starts the instance under B.
func c05RestartAfterSwapCase(c *mon.Case, state bool) {
	r := c.Rng
	failFirst := r.IntN(2) == 0
	behave := func(n, gen int) (bool, int, error, bool) {
		if n == 0 {
			if failFirst {
				return false, 0, fmt.Errorf("error-inst-0"), false
			}
			return false, 0, nil, false
		}
		return true, 0, nil, false
	}
	w := newRtWorld(c, state, false, false, behave)
	cx := &rtCtxs{}
	defer cx.cancelAll()
	ctxA, tagA := cx.fresh()
	w.setContext("d", ctxA, false, fmt.Sprint("new#", tagA))
	w.setGen("d", 1)
	if !mon.Quiesce(5 * time.Second) {
		c.Inconclusive("no quiescence")
		return
	}
	ctxB, tagB := cx.fresh()
	w.setContext("d", ctxB, false, fmt.Sprint("new#", tagB))
	w.restart("d")
	c.Count("restart_after_swap_templates", 1)
	c.NonTrivial()
	if !mon.Quiesce(5 * time.Second) {
		c.Inconclusive("no quiescence after RestartRoutine")
		return
	}
	live := 0
	for _, in := range w.instances() {
		if in.exit.Load() == 0 && in.ctx.Err() == nil {
			live++
			if in.tag != tagB {
				c.Violate("survivor", w.kind()+"-survivor-wrong-context", "the first run returned under context #%d; the container was given context #%d (restart=false) and RestartRoutine was called; instance #%d is live under context #%d", tagA, tagB, in.n, in.tag)
			}
		}
	}
	if live != 1 && !c.Violated() {
		c.Violate("survivor", w.kind()+"-current-routine-not-running", "after SetContext(#%d) and RestartRoutine %d instances are live, want exactly one under the new context", tagB, live)
	}
	call, _ := w.clearContext("d")
	w.checkSuperseded(call, "ClearContext")
}

// c05StaleErrorSwapCase: the routine failed, was run again (RestartRoutine, or the retry timer) and now runs; the
// container is given another live context (restart=false). The running instance is superseded: cancelled when
// SetContext returns, and what runs afterwards runs under the new context.
func c05StaleErrorSwapCase(c *mon.Case, state bool) {
	r := c.Rng
	viaRetry := r.IntN(2) == 0
	behave := func(n, gen int) (bool, int, error, bool) {
		if n == 0 {
			return false, 0, fmt.Errorf("error-inst-0"), false
		}
		return true, 0, nil, false
	}
	w := newRtWorld(c, state, false, viaRetry, behave)
	cx := &rtCtxs{}
	defer cx.cancelAll()
	ctxA, tagA := cx.fresh()
	w.setContext("d", ctxA, false, fmt.Sprint("new#", tagA))
	w.setGen("d", 1)
	if viaRetry {
		if !mon.SettleTimers(rtBackoff, 30, 15*time.Millisecond, 10*time.Second) {
			c.Inconclusive("no quiescence after the retry")
			return
		}
	} else {
		if !mon.Quiesce(5 * time.Second) {
			c.Inconclusive("no quiescence after the failure")
			return
		}
		w.restart("d")
		if !mon.Quiesce(5 * time.Second) {
			c.Inconclusive("no quiescence after RestartRoutine")
			return
		}
	}
	if ins := w.instances(); len(ins) != 2 || ins[1].exit.Load() != 0 {
		c.Inconclusive("the second instance is not running")
		return
	}
	ctxB, tagB := cx.fresh()
	call, _ := w.setContext("d", ctxB, false, fmt.Sprint("new#", tagB))
	w.checkSuperseded(call, "SetContext(new context, restart=false) after a failure that was followed by a re-run")
	c.Count("stale_error_swap_templates", 1)
	c.NonTrivial()
	if !mon.Quiesce(5 * time.Second) {
		c.Inconclusive("no quiescence after SetContext")
		return
	}
	live := 0
	for _, in := range w.instances() {
		if in.exit.Load() == 0 && in.ctx.Err() == nil {
			live++
			if in.tag != tagB && !c.Violated() {
				c.Violate("survivor", w.kind()+"-survivor-wrong-context", "the routine failed under context #%d and was run again (retry timer: %v); the container was then given context #%d (restart=false); instance #%d is live under context #%d", tagA, viaRetry, tagB, in.n, in.tag)
			}
		}
	}
	if live != 1 && !c.Violated() {
		c.Violate("survivor", w.kind()+"-current-routine-not-running", "after SetContext(#%d) %d instances are live, want exactly one under the new context", tagB, live)
	}
	call, _ = w.clearContext("d")
	w.checkSuperseded(call, "ClearContext")
}
