package worlds

import (
	"context"
	"fmt"
	"runtime"
	"sync"
	"sync/atomic"
	"time"

	"github.com/aperturerobotics/util/broadcast"
	"github.com/aperturerobotics/util/verifhook"

	"verifharness/mon"
)

func init() {
	Registry["C03"] = Spec{
		Run: runC03, Workers: 16, GOMAXPROCS: 4,
		QuickTimeout: 5 * time.Minute, ThoroughTimeout: 30 * time.Minute,
		QuickFloor: 2000, ThoroughFloor: 40000,
		RequiredCounters: []string{"sections", "broadcasts_checked", "wait_returns_judged", "broadcast_between_sample_and_block", "gated_templates", "quiescent_judgements"},
		Rule: "each case runs 1-8 waiters (Broadcast.Wait and the hand-written sample/getWaitCh/select idiom) against 1-4 broadcasters (HoldLock, TryHoldLock, HoldLockMaybeAsync) on one Broadcast whose guarded state (a generation counter) is owned by the harness; " +
			"every critical section is numbered from inside the callback and checks the open/closed status of every channel handed out; cancellations race broadcasts; a gated template parks the waiter between its sampling section and its select while the satisfying broadcast runs; " +
			"non-trivial = at least one broadcast landed between some waiter's sampling section and its blocking receive (measured at the pre-select schedule point); distinct = distinct orders of recorded section/return events",
		Assumptions: append([]string{"the harness broadcasts in the same critical section as every state change, so a blocked waiter with a true predicate at quiescence is a missed broadcast"}, commonAssumptions...),
	}
}

type bcWorld struct {
	c *mon.Case
	b *broadcast.Broadcast
	// fields below are only touched inside critical sections of b (the library's lock is held)
	gen         int
	sec         int64
	outstanding []<-chan struct{}
	// atomics
	occ        atomic.Int64
	bcastCount atomic.Int64
	waiters    sync.Map // goid -> *bcWaiter
}

type bcWaiter struct {
	id          int
	bcastAtEval atomic.Int64
	raced       atomic.Bool
}

// wrap turns a harness body into a Broadcast callback that checks the channel discipline.
func (w *bcWorld) wrap(actor string, body func(bcast func(), getWaitCh func() <-chan struct{})) func(func(), func() <-chan struct{}) {
	return func(bc func(), gw func() <-chan struct{}) {
		c := w.c
		if n := w.occ.Add(1); n != 1 {
			c.Violate("bcast", "sections-overlap", "%d critical sections of one Broadcast are running at once (actor %s)", n, actor)
		}
		w.sec++
		c.Count("sections", 1)
		for _, ch := range w.outstanding {
			select {
			case <-ch:
				c.Violate("bcast", "channel-closed-without-broadcast", "a wait channel handed out after the last broadcast is closed at the start of section %d (actor %s)", w.sec, actor)
			default:
			}
		}
		wb := func() {
			bc()
			w.bcastCount.Add(1)
			for _, ch := range w.outstanding {
				select {
				case <-ch:
				default:
					c.Violate("bcast", "broadcast-left-channel-open", "broadcast in section %d left a previously handed-out wait channel open (actor %s)", w.sec, actor)
				}
			}
			c.Count("broadcasts_checked", 1)
			w.outstanding = w.outstanding[:0]
		}
		wg := func() <-chan struct{} {
			ch := gw()
			select {
			case <-ch:
				c.Violate("bcast", "getwaitch-returned-closed", "getWaitCh returned an already closed channel in section %d (actor %s)", w.sec, actor)
			default:
			}
			dup := false
			for _, o := range w.outstanding {
				if o == ch {
					dup = true
				}
			}
			if !dup {
				w.outstanding = append(w.outstanding, ch)
			}
			return ch
		}
		body(wb, wg)
		w.occ.Add(-1)
	}
}

func runC03(w *mon.Worker) {
	mon.SetMaxSleep(150 * time.Microsecond)
	for i := 0; i < w.Share(w.Scale(20000, 6000000)); i++ {
		mon.SetProb(0.25, verifhook.BcastEnter, verifhook.BcastExit, verifhook.BcastWaitBlock)
		mon.SetProb(0.05, verifhook.BcastLocked)
		w.Case("random", nil, bcastRandomCase)
	}
	mon.ClearProb()
	for i := 0; i < w.Share(w.Scale(2000, 600000)); i++ {
		w.Case("gated", nil, bcastGatedCase)
	}
}

func (w *bcWorld) installBlockHook() {
	mon.OnSite(verifhook.BcastWaitBlock, func(obj any) {
		if obj != any(w.b) {
			return
		}
		if v, ok := w.waiters.Load(mon.GoID()); ok {
			wt := v.(*bcWaiter)
			if w.bcastCount.Load() != wt.bcastAtEval.Load() {
				if !wt.raced.Swap(true) {
					w.c.Count("broadcast_between_sample_and_block", 1)
					w.c.NonTrivial()
				}
			}
		}
	})
}

type bcWaitResult struct {
	id          int
	kind        string
	threshold   int
	errAt       int
	returned    atomic.Bool
	err         error
	lastDone    bool
	lastErr     error
	evals       int
	predErr     error
	cancelStamp atomic.Int64
	retStamp    int64
	deadline    bool
	ctx         context.Context
	cancel      context.CancelFunc
}

func bcastRandomCase(c *mon.Case) {
	r := c.Rng
	w := &bcWorld{c: c, b: &broadcast.Broadcast{}}
	w.installBlockHook()
	defer mon.OnSite(verifhook.BcastWaitBlock, nil)
	nWaiters := 1 + r.IntN(8)
	nBroad := 1 + r.IntN(4)
	perBroad := 2 + r.IntN(12)
	maxGen := nBroad * perBroad
	results := make([]*bcWaitResult, nWaiters)
	var asyncCalls, asyncRuns atomic.Int64
	start := make(chan struct{})

	noisyCase := r.IntN(3) == 0
	for i := 0; i < nWaiters; i++ {
		i := i
		wr := &bcWaitResult{id: i, threshold: 1 + r.IntN(maxGen+3), errAt: -1}
		if r.IntN(4) == 0 {
			// a deadline context: Wait must still report context.Canceled
			wr.ctx, wr.cancel = context.WithTimeout(context.Background(), time.Duration(30+r.IntN(400))*time.Microsecond)
			wr.deadline = true
		} else {
			wr.ctx, wr.cancel = context.WithCancel(context.Background())
		}
		if r.IntN(5) == 0 {
			wr.errAt = 1 + r.IntN(maxGen)
			wr.predErr = fmt.Errorf("pred-error-%d", i)
			switch r.IntN(4) {
			case 0:
				// an error of the guarded state that wraps a cancellation of some unrelated context: still the predicate's error
				wr.predErr = fmt.Errorf("pred-error-%d: %w", i, context.Canceled)
			case 1:
				wr.predErr = fmt.Errorf("pred-error-%d: %w", i, context.DeadlineExceeded)
			}
		}
		manual := r.IntN(4) == 0
		wr.kind = "Wait"
		if manual {
			wr.kind = "manual"
			wr.errAt, wr.predErr = -1, nil
		}
		results[i] = wr
		noisy := i == 0 && !manual && noisyCase
		name := fmt.Sprint("w", i)
		c.Go(name, func() {
			wt := &bcWaiter{id: i}
			gid := mon.GoID()
			w.waiters.Store(gid, wt)
			defer w.waiters.Delete(gid)
			<-start
			c.Rec(name, "call "+wr.kind, map[string]int{"gen>=": wr.threshold, "errAt": wr.errAt})
			if !manual {
				wr.err = w.b.Wait(wr.ctx, func(bc func(), gw func() <-chan struct{}) (bool, error) {
					var done bool
					var err error
					w.wrap(name, func(wbc func(), wgw func() <-chan struct{}) {
						wr.evals++
						if noisy && wr.evals == 1 {
							// a predicate may use what it is handed: fetch the wait channel, broadcast (closing it), fetch again.
							// The second channel is a fresh, open one. (Only one waiter per case does this, once: two such
							// predicates would wake each other for ever on any implementation.)
							wgw()
							wbc()
							wgw()
							c.Count("predicates_using_broadcast_and_getwaitch", 1)
						}
						wt.bcastAtEval.Store(w.bcastCount.Load())
						if wr.errAt >= 0 && w.gen >= wr.errAt {
							err = wr.predErr
							// some predicates report "done" together with their error
							done = wr.id%2 == 0
							if wr.id%3 == 0 && wr.cancelStamp.Load() == 0 {
								// the waiter's context ends while the predicate is failing: the predicate's error is still what Wait returns
								wr.cancelStamp.Store(c.Stamp())
								wr.cancel()
								c.Count("cancel_inside_failing_predicate", 1)
							}
						} else {
							done = w.gen >= wr.threshold
						}
						wr.lastDone, wr.lastErr = done, err
					})(bc, gw)
					return done, err
				})
			} else {
				// the documented idiom written by hand
				for {
					var done bool
					var ch <-chan struct{}
					w.b.HoldLock(w.wrap(name, func(_ func(), gw func() <-chan struct{}) {
						wr.evals++
						wt.bcastAtEval.Store(w.bcastCount.Load())
						done = w.gen >= wr.threshold
						wr.lastDone = done
						if !done {
							ch = gw()
						}
					}))
					if done {
						break
					}
					if w.bcastCount.Load() != wt.bcastAtEval.Load() && !wt.raced.Swap(true) {
						c.Count("broadcast_between_sample_and_block", 1)
						c.NonTrivial()
					}
					select {
					case <-wr.ctx.Done():
						wr.err = context.Canceled
					case <-ch:
						continue
					}
					break
				}
			}
			wr.retStamp = c.Rec(name, "return", fmt.Sprint(wr.err))
			wr.returned.Store(true)
		})
	}
	var bwg sync.WaitGroup
	for j := 0; j < nBroad; j++ {
		j := j
		name := fmt.Sprint("b", j)
		bwg.Add(1)
		c.Go(name, func() {
			defer bwg.Done()
			<-start
			for k := 0; k < perBroad; k++ {
				body := w.wrap(name, func(bc func(), gw func() <-chan struct{}) {
					w.gen++
					bc()
				})
				if (j*7+k)%6 == 5 {
					// a callback that panics after its work; the caller recovers. The critical section must have been left.
					func() {
						defer func() { _ = recover() }()
						w.b.HoldLock(func(bc func(), gw func() <-chan struct{}) {
							body(bc, gw)
							panic("callback panics (recovered by its caller)")
						})
					}()
					c.Count("panicking_callbacks", 1)
					continue
				}
				switch (j + k) % 5 {
				case 0, 1, 2:
					w.b.HoldLock(body)
				case 3:
					ran := false
					ok := w.b.TryHoldLock(func(bc func(), gw func() <-chan struct{}) { ran = true; body(bc, gw) })
					if ok != ran {
						c.Violate("bcast", "tryholdlock-result", "TryHoldLock returned %v but the callback ran=%v", ok, ran)
					}
					if !ok {
						w.b.HoldLock(body)
					}
				default:
					asyncCalls.Add(1)
					w.b.HoldLockMaybeAsync(func(bc func(), gw func() <-chan struct{}) { asyncRuns.Add(1); body(bc, gw) })
				}
				if k%3 == 0 {
					runtime.Gosched()
				}
			}
		})
	}
	// canceller: cancels some waiters while broadcasts are in flight
	nCancel := r.IntN(nWaiters + 1)
	cancelIdx := r.Perm(nWaiters)[:nCancel]
	cancelDelay := r.IntN(60)
	c.Go("canceller", func() {
		<-start
		for _, i := range cancelIdx {
			for k := 0; k < cancelDelay; k++ {
				runtime.Gosched()
			}
			results[i].cancelStamp.Store(c.Rec("canceller", fmt.Sprint("cancel w", i), nil))
			results[i].cancel()
		}
	})
	close(start)
	bdone := make(chan struct{})
	go func() { bwg.Wait(); close(bdone) }()
	select {
	case <-bdone:
	case <-time.After(20 * time.Second):
		c.Inconclusive("broadcasters did not finish")
		return
	}
	if !mon.Quiesce(10 * time.Second) {
		c.Inconclusive("no quiescence after the broadcasts")
		return
	}
	// the final state, read in a section of our own
	var finalGen int
	w.b.HoldLock(w.wrap("judge", func(_ func(), _ func() <-chan struct{}) { finalGen = w.gen }))
	c.Count("quiescent_judgements", 1)
	if asyncRuns.Load() != asyncCalls.Load() {
		c.Violate("bcast", "maybeasync-callback-count", "HoldLockMaybeAsync was called %d times but its callbacks ran %d times at quiescence", asyncCalls.Load(), asyncRuns.Load())
	}
	if finalGen != maxGen {
		c.Violate("bcast", "lost-update", "generation is %d after %d increments made inside critical sections", finalGen, maxGen)
	}
	var report []string
	for _, wr := range results {
		if wr.returned.Load() {
			continue
		}
		cancelled := wr.cancelStamp.Load() != 0 || (wr.deadline && wr.ctx.Err() != nil)
		satisfied := finalGen >= wr.threshold || (wr.errAt >= 0 && finalGen >= wr.errAt)
		if satisfied || cancelled {
			report = append(report, fmt.Sprintf("waiter %d (%s, gen>=%d, errAt %d, cancelled=%v) is still blocked at generation %d after %d evaluations", wr.id, wr.kind, wr.threshold, wr.errAt, cancelled, finalGen, wr.evals))
		}
	}
	if len(report) != 0 {
		// grace period: can only retract
		if mon.QuiesceConfirmed(100*time.Millisecond, 10*time.Second) {
			for _, wr := range results {
				if !wr.returned.Load() && (finalGen >= wr.threshold || (wr.errAt >= 0 && finalGen >= wr.errAt) || wr.cancelStamp.Load() != 0) {
					c.Violate("lost-wakeup", "bcast-waiter-blocked-while-satisfied", "%v", report)
					break
				}
			}
		}
	}
	// release the rest by cancellation; all must return
	for _, wr := range results {
		if !wr.returned.Load() && wr.cancelStamp.Load() == 0 {
			wr.cancelStamp.Store(c.Rec("judge", fmt.Sprint("cancel w", wr.id), nil))
		}
		wr.cancel()
	}
	if !c.WaitActors(3 * time.Second) {
		if mon.Quiesce(5 * time.Second) {
			if !c.Violated() {
				c.Violate("lost-wakeup", "bcast-waiter-ignores-cancel", "a waiter is still blocked in a quiescent process after its context was cancelled")
			}
		} else {
			c.Inconclusive("waiters did not finish")
		}
		return
	}
	for _, wr := range results {
		c.Count("wait_returns_judged", 1)
		switch {
		case wr.err == nil:
			if wr.lastErr != nil {
				c.Violate("bcast", "wait-swallowed-predicate-error", "waiter %d (%s) returned nil although its last predicate evaluation returned (done=%v, err=%v): the predicate's error must be returned unchanged", wr.id, wr.kind, wr.lastDone, wr.lastErr)
			} else if !wr.lastDone {
				c.Violate("bcast", "wait-nil-without-true-predicate", "waiter %d (%s) returned nil but its last predicate evaluation returned false (evaluations: %d)", wr.id, wr.kind, wr.evals)
			}
		case wr.predErr != nil && wr.err == wr.predErr:
			if wr.lastErr != wr.predErr {
				c.Violate("bcast", "wait-error-not-from-predicate", "waiter %d returned the predicate's error but its last evaluation did not return it", wr.id)
			}
		case wr.err == context.Canceled:
			cs := wr.cancelStamp.Load()
			if wr.lastErr != nil {
				c.Violate("bcast", "wait-replaced-predicate-error", "waiter %d returned context.Canceled although its last predicate evaluation returned the error %v: the predicate's error must be returned unchanged (context cancelled at %d)", wr.id, wr.lastErr, cs)
			} else if wr.deadline && wr.ctx.Err() != nil {
				// the deadline passed (a context is done for good once it is done)
			} else if cs == 0 || cs > wr.retStamp {
				c.Violate("bcast", "wait-canceled-without-cancel", "waiter %d returned context.Canceled at %d but its context was cancelled at %d (0 = never)", wr.id, wr.retStamp, cs)
			}
		default:
			c.Violate("bcast", "wait-foreign-error", "waiter %d returned %v, which is neither its predicate's error nor context.Canceled", wr.id, wr.err)
		}
	}
}

// bcastGatedCase parks the single waiter between its sampling section and its
// select, runs the satisfying broadcast, and lets go: it must return without any further broadcast.
func bcastGatedCase(c *mon.Case) {
	r := c.Rng
	w := &bcWorld{c: c, b: &broadcast.Broadcast{}}
	w.installBlockHook()
	defer mon.OnSite(verifhook.BcastWaitBlock, nil)
	threshold := 1 + r.IntN(3)
	extraWaiters := r.IntN(3)
	g := mon.NewGate(verifhook.BcastWaitBlock, w.b, 1)
	ctx, cancel := context.WithCancel(context.Background())
	defer cancel()
	var returned atomic.Int64
	var errs sync.Map
	for i := 0; i <= extraWaiters; i++ {
		i := i
		name := fmt.Sprint("w", i)
		c.Go(name, func() {
			wt := &bcWaiter{id: i}
			gid := mon.GoID()
			w.waiters.Store(gid, wt)
			defer w.waiters.Delete(gid)
			c.Rec(name, "call Wait", threshold)
			err := w.b.Wait(ctx, func(bc func(), gw func() <-chan struct{}) (bool, error) {
				var done bool
				w.wrap(name, func(_ func(), _ func() <-chan struct{}) {
					wt.bcastAtEval.Store(w.bcastCount.Load())
					done = w.gen >= threshold
				})(bc, gw)
				return done, nil
			})
			errs.Store(i, err)
			c.Rec(name, "return", fmt.Sprint(err))
			returned.Add(1)
		})
	}
	if !g.WaitArrived(5 * time.Second) {
		g.Release()
		cancel()
		c.Inconclusive("waiter never reached the pre-select point")
		c.WaitActors(5 * time.Second)
		return
	}
	// the other waiters, if any, block normally
	if !mon.Quiesce(5 * time.Second) {
		g.Release()
		cancel()
		c.Inconclusive("no quiescence before the broadcast")
		return
	}
	for k := 0; k < threshold; k++ {
		w.b.HoldLock(w.wrap("b", func(bc func(), _ func() <-chan struct{}) {
			w.gen++
			bc()
		}))
	}
	c.Rec("b", "broadcast done, releasing the parked waiter", nil)
	g.Release()
	c.Count("gated_templates", 1)
	if !mon.Quiesce(5 * time.Second) {
		cancel()
		c.Inconclusive("no quiescence after release")
		return
	}
	if g.TimedOut.Load() {
		cancel()
		c.Inconclusive("gate timed out")
		return
	}
	if int(returned.Load()) != extraWaiters+1 {
		if mon.QuiesceConfirmed(100*time.Millisecond, 5*time.Second) && int(returned.Load()) != extraWaiters+1 {
			c.Violate("lost-wakeup", "bcast-waiter-blocked-while-satisfied", "gated template: %d of %d waiters are still blocked although the generation reached %d (threshold %d) and the broadcast ran while one waiter was parked before its select",
				extraWaiters+1-int(returned.Load()), extraWaiters+1, threshold, threshold)
		}
	}
	cancel()
	c.WaitActors(5 * time.Second)
	errs.Range(func(k, v any) bool {
		if v != nil && !c.Violated() {
			c.Violate("bcast", "wait-foreign-error", "gated template: waiter %v returned %v", k, v)
		}
		return true
	})
}
