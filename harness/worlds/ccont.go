package worlds

import (
	"context"
	"errors"
	"fmt"
	"runtime"
	"sync"
	"sync/atomic"
	"time"

	"github.com/anishathalye/porcupine"
	"github.com/aperturerobotics/util/ccontainer"
	"github.com/aperturerobotics/util/verifhook"

	"verifharness/mon"
)

func init() {
	Registry["C15"] = Spec{
		Run: runC15, Workers: 16, GOMAXPROCS: 4,
		QuickTimeout: 5 * time.Minute, ThoroughTimeout: 30 * time.Minute,
		QuickFloor: 2000, ThoroughFloor: 40000,
		RequiredCounters: []string{"register_histories_linearizable", "swap_increments_conserved", "waiter_returns_judged", "write_between_sample_and_block", "gated_templates", "validator_reentry_templates", "ctx_identity_templates", "quiescent_judgements", "CContainerBlock"},
		Rule: "cases are (a) short concurrent Get/Set/Swap histories checked by porcupine against a register model that includes the custom-equality no-op rule, (b) N x M concurrent SwapValue(+1) conservation runs, " +
			"(c) 1-6 writers of unique values against 1-8 waiters of the four kinds with cancellations and error-channel deliveries racing the writes, judged per return and at quiescence, (d) a gated template parking the waiter between sample and select while the satisfying write lands; " +
			"non-trivial = at least one write landed between a waiter's sample and its block (measured at the pre-select schedule point), or overlapping operations in a porcupine history; distinct = distinct event orders",
		Assumptions: append([]string{"writers in (c) write unique values, so a returned value identifies its write"}, commonAssumptions...),
	}
}

func runC15(w *mon.Worker) {
	mon.SetMaxSleep(120 * time.Microsecond)
	mon.SetProb(0.25, verifhook.BcastEnter, verifhook.BcastExit, verifhook.CContainerBlock)
	for i := 0; i < w.Share(w.Scale(8000, 600000)); i++ {
		w.Case("register-history", nil, ccRegisterCase)
	}
	for i := 0; i < w.Share(w.Scale(128, 4000)); i++ {
		w.Case("swap-conservation", nil, ccSwapConservationCase)
	}
	for i := 0; i < w.Share(w.Scale(12000, 1200000)); i++ {
		w.Case("waiters", nil, ccWaitersCase)
	}
	mon.ClearProb()
	for i := 0; i < w.Share(w.Scale(1600, 120000)); i++ {
		w.Case("gated", nil, ccGatedCase)
		w.Case("validator-reentry", nil, ccValidatorReentryCase)
		w.Case("ctx-error-identity", nil, ccCtxIdentityCase)
	}
}

func decadeEq(a, b int) bool { return a/10 == b/10 }

// nilSafeDecadeEq is the common "nil-safe" comparator shape: never equal if either side is the zero value.
func nilSafeDecadeEq(a, b int) bool { return a != 0 && b != 0 && a/10 == b/10 }

// eqFn returns the custom equality of a kind (0 = none).
func eqFn(kind int) func(a, b int) bool {
	switch kind {
	case 1:
		return decadeEq
	case 2:
		return nilSafeDecadeEq
	}
	return nil
}

func newCtr(kind, initial int) *ccontainer.CContainer[int] {
	if f := eqFn(kind); f != nil {
		return ccontainer.NewCContainerWithEqual(initial, f)
	}
	return ccontainer.NewCContainer(initial)
}

// cmpFn is the documented comparison: identical, or equal by the custom function.
func cmpFn(kind int) func(a, b int) bool {
	f := eqFn(kind)
	return func(a, b int) bool { return a == b || (f != nil && f(a, b)) }
}

type regIn struct {
	Op  string // get set swap
	Val int
}

func registerModel(eqKind int) porcupine.Model {
	cmp := cmpFn(eqKind)
	return porcupine.Model{
		Init: func() interface{} { return 0 },
		Step: func(st, in, out interface{}) (bool, interface{}) {
			s, i, o := st.(int), in.(regIn), out.(int)
			switch i.Op {
			case "get":
				return o == s, s
			case "set":
				if cmp(s, i.Val) {
					return true, s
				}
				return true, i.Val
			case "swap":
				nv := s + i.Val
				if cmp(s, nv) {
					return o == nv, s
				}
				return o == nv, nv
			}
			return false, s
		},
		DescribeOperation: func(in, out interface{}) string { return fmt.Sprintf("%v -> %v", in, out) },
	}
}

func ccRegisterCase(c *mon.Case) {
	r := c.Rng
	eqKind := 0
	if r.IntN(3) == 0 {
		eqKind = 1 + r.IntN(2)
	}
	ctr := newCtr(eqKind, 0)
	nclients := 2 + r.IntN(4)
	nops := 2 + r.IntN(5)
	h := &histRec{}
	start := make(chan struct{})
	for cl := 0; cl < nclients; cl++ {
		cl := cl
		kinds := make([]int, nops)
		vals := make([]int, nops)
		for i := range kinds {
			kinds[i] = r.IntN(3)
			vals[i] = 1 + r.IntN(40)
		}
		c.Go("client", func() {
			<-start
			name := fmt.Sprint("c", cl)
			for i, k := range kinds {
				switch k {
				case 0:
					t0 := c.Rec(name, "call get", nil)
					v := ctr.GetValue()
					t1 := c.Rec(name, "ret get", v)
					h.add(porcupine.Operation{ClientId: cl, Input: regIn{Op: "get"}, Call: t0, Output: v, Return: t1})
				case 1:
					t0 := c.Rec(name, "call set", vals[i])
					ctr.SetValue(vals[i])
					t1 := c.Rec(name, "ret set", nil)
					h.add(porcupine.Operation{ClientId: cl, Input: regIn{Op: "set", Val: vals[i]}, Call: t0, Output: 0, Return: t1})
				default:
					d := 1 + vals[i]%12
					t0 := c.Rec(name, "call swap", d)
					v := ctr.SwapValue(func(old int) int { return old + d })
					t1 := c.Rec(name, "ret swap", v)
					h.add(porcupine.Operation{ClientId: cl, Input: regIn{Op: "swap", Val: d}, Call: t0, Output: v, Return: t1})
				}
			}
		})
	}
	close(start)
	if !c.WaitActors(20 * time.Second) {
		c.Inconclusive("clients did not finish")
		return
	}
	t0 := c.Stamp()
	v := ctr.GetValue()
	t1 := c.Stamp()
	h.add(porcupine.Operation{ClientId: nclients, Input: regIn{Op: "get"}, Call: t0, Output: v, Return: t1})
	checkHistory(c, "register", registerModel(eqKind), h.ops, "register_histories_linearizable")
}

func ccSwapConservationCase(c *mon.Case) {
	r := c.Rng
	ctr := ccontainer.NewCContainer(0)
	n, m := 2+r.IntN(7), 200+r.IntN(800)
	for g := 0; g < n; g++ {
		c.Go("inc", func() {
			for i := 0; i < m; i++ {
				ctr.SwapValue(func(v int) int { return v + 1 })
				if i%64 == 0 {
					_ = ctr.GetValue()
				}
			}
		})
	}
	if !c.WaitActors(25 * time.Second) {
		c.Inconclusive("incrementers did not finish")
		return
	}
	c.NonTrivial()
	c.Mix(uint64(n)<<32 | uint64(m))
	c.Rec("swap", "conservation", map[string]int{"goroutines": n, "each": m, "final": ctr.GetValue()})
	if got := ctr.GetValue(); got != n*m {
		c.Violate("atomicity", "swapvalue-lost-update", "%d goroutines x %d SwapValue(+1) ended at %d, want %d", n, m, got, n*m)
		return
	}
	c.Count("swap_increments_conserved", int64(n*m))
}

type ccWrite struct {
	val    int
	s0, s1 int64
}

type ccWaiterRec struct {
	id          int
	kind        string // value change empty validator
	old         int
	minVal      int
	validatorEr error
	validatorErred atomic.Bool
	useErrCh    int // 0 none, 1 error delivered, 2 closed, 3 nil delivered then nothing
	errSent     atomic.Int64
	errCh       chan error
	ctx         context.Context
	cancel      context.CancelFunc
	cancelStamp atomic.Int64
	call, ret   int64
	val         int
	err         error
	returned    atomic.Bool
	writesAtVal atomic.Int64
	raced       atomic.Bool
}

var errDelivered = errors.New("delivered on errCh")
var errCtxCause = errors.New("cause attached to the context (not the context's error)")

func (wr *ccWaiterRec) satisfied(v int, cmp func(a, b int) bool) bool {
	switch wr.kind {
	case "value", "nilvalidator":
		return !cmp(0, v)
	case "change":
		return !cmp(wr.old, v)
	case "empty":
		return cmp(0, v)
	default:
		return v >= wr.minVal
	}
}

func ccWaitersCase(c *mon.Case) {
	r := c.Rng
	eqKind := 0
	if r.IntN(3) == 0 {
		eqKind = 1 + r.IntN(2)
	}
	custom := eqKind != 0
	cmp := cmpFn(eqKind)
	initial := 0
	if r.IntN(3) == 0 {
		initial = 1000
	}
	ctr := newCtr(eqKind, initial)
	nWriters, nWaiters := 1+r.IntN(6), 1+r.IntN(8)
	perWriter := 1 + r.IntN(8)
	var writesDone atomic.Int64
	var wmu sync.Mutex
	writes := []ccWrite{{val: initial}}
	waiters := make([]*ccWaiterRec, nWaiters)
	byGo := sync.Map{}
	mon.OnSite(verifhook.CContainerBlock, func(obj any) {
		if obj != any(ctr) {
			return
		}
		if v, ok := byGo.Load(mon.GoID()); ok {
			wr := v.(*ccWaiterRec)
			if wr.kind == "validator" && writesDone.Load() != wr.writesAtVal.Load() && !wr.raced.Swap(true) {
				c.Count("write_between_sample_and_block", 1)
				c.NonTrivial()
			}
		}
	})
	defer mon.OnSite(verifhook.CContainerBlock, nil)
	start := make(chan struct{})
	kinds := []string{"value", "change", "empty", "validator", "validator", "nilvalidator"}
	for i := range waiters {
		wr := &ccWaiterRec{id: i, kind: kinds[r.IntN(len(kinds))]}
		switch r.IntN(4) {
		case 0:
			// cancelled with a cause: the waiter still has to report the context's error, ctx.Err()
			cctx, ccancel := context.WithCancelCause(context.Background())
			wr.ctx, wr.cancel = cctx, func() { ccancel(errCtxCause) }
		case 1:
			// a plain child of a context cancelled with a cause
			pctx, pcancel := context.WithCancelCause(context.Background())
			cctx, ccancel := context.WithCancel(pctx)
			wr.ctx, wr.cancel = cctx, func() { pcancel(errCtxCause); ccancel() }
		default:
			wr.ctx, wr.cancel = context.WithCancel(context.Background())
		}
		wr.old = initial
		if r.IntN(2) == 0 {
			wr.old = 0
		}
		wr.minVal = 1 + r.IntN(nWriters*1000+perWriter)
		if r.IntN(2) == 0 {
			wr.minVal = (1+r.IntN(nWriters))*1000 + r.IntN(perWriter+2)
		}
		if r.IntN(3) == 0 {
			wr.useErrCh = 1 + r.IntN(3)
			wr.errCh = make(chan error, 2)
		}
		if wr.kind == "validator" && r.IntN(6) == 0 {
			wr.validatorEr = fmt.Errorf("validator-error-%d", i)
		}
		waiters[i] = wr
		name := fmt.Sprint("w", i)
		c.Go(name, func() {
			byGo.Store(mon.GoID(), wr)
			<-start
			var errCh <-chan error
			if wr.errCh != nil {
				errCh = wr.errCh
			}
			wr.call = c.Rec(name, "call Wait "+wr.kind, map[string]int{"old": wr.old, "min": wr.minVal, "errch": wr.useErrCh})
			switch wr.kind {
			case "value":
				wr.val, wr.err = ctr.WaitValue(wr.ctx, errCh)
			case "change":
				wr.val, wr.err = ctr.WaitValueChange(wr.ctx, wr.old, errCh)
			case "empty":
				wr.err = ctr.WaitValueEmpty(wr.ctx, errCh)
			case "nilvalidator":
				// documented: a nil validator waits for a non-empty value
				wr.val, wr.err = ctr.WaitValueWithValidator(wr.ctx, nil, errCh)
			default:
				wr.val, wr.err = ctr.WaitValueWithValidator(wr.ctx, func(v int) (bool, error) {
					wr.writesAtVal.Store(writesDone.Load())
					if wr.id%2 == 1 {
						// a validator may consult the container it waits on
						ctr.GetValue()
					}
					if wr.validatorEr != nil && v >= wr.minVal {
						// the validator's error ends the wait, whatever verdict comes with it
						wr.validatorErred.Store(true)
						return wr.id%2 == 0, wr.validatorEr
					}
					return v >= wr.minVal, nil
				}, errCh)
			}
			wr.ret = c.Rec(name, "return", fmt.Sprint(wr.val, " ", wr.err))
			wr.returned.Store(true)
		})
	}
	var wwg sync.WaitGroup
	for j := 0; j < nWriters; j++ {
		j := j
		name := fmt.Sprint("writer", j)
		wwg.Add(1)
		setEmptyAt := -1
		if r.IntN(3) == 0 {
			setEmptyAt = r.IntN(perWriter)
		}
		c.Go(name, func() {
			defer wwg.Done()
			<-start
			for k := 0; k < perWriter; k++ {
				v := (j+1)*1000 + k + 1
				if k == setEmptyAt {
					v = 0
					if custom && (j+k)%2 == 0 {
						// a value that is not the zero value but that the container's comparison treats as equal to it
						v = j + 1
						c.Count("writes_equal_to_empty_under_custom_equality", 1)
					}
				}
				if (j*5+k)%7 == 6 {
					// a SwapValue callback that panics (the caller recovers): the cell keeps its content and stays usable
					func() {
						defer func() { _ = recover() }()
						ctr.SwapValue(func(int) int { panic("SwapValue callback panics (recovered by its caller)") })
					}()
					c.Count("panicking_swap_callbacks", 1)
				}
				s0 := c.Rec(name, "write", v)
				if (j+k)%3 == 0 {
					ctr.SwapValue(func(int) int { return v })
				} else {
					ctr.SetValue(v)
				}
				s1 := c.Stamp()
				writesDone.Add(1)
				wmu.Lock()
				writes = append(writes, ccWrite{val: v, s0: s0, s1: s1})
				wmu.Unlock()
				if k%2 == 0 {
					runtime.Gosched()
				}
			}
		})
	}
	// a WatchChanges observer: every delivered value differs from the previous one and is the cell's content
	watchCtx, watchCancel := context.WithCancel(context.Background())
	defer watchCancel()
	var watched []int
	var watchMu sync.Mutex
	var watchErr error
	var watchDone atomic.Bool
	c.Go("watcher", func() {
		<-start
		watchErr = ccontainer.WatchChanges[int](watchCtx, initial, ccontainer.ToWatchable(ctr), func(v int) error {
			watchMu.Lock()
			watched = append(watched, v)
			watchMu.Unlock()
			return nil
		}, nil)
		watchDone.Store(true)
	})
	// cancels and error-channel deliveries racing the writes
	c.Go("disturber", func() {
		<-start
		for _, wr := range waiters {
			for k := 0; k < 5; k++ {
				runtime.Gosched()
			}
			switch wr.useErrCh {
			case 1:
				wr.errSent.Store(c.Rec("disturber", fmt.Sprint("errCh<-err w", wr.id), nil))
				wr.errCh <- errDelivered
			case 2:
				wr.errSent.Store(c.Rec("disturber", fmt.Sprint("close errCh w", wr.id), nil))
				close(wr.errCh)
			case 3:
				wr.errCh <- nil
			}
			if wr.id%3 == 0 {
				wr.cancelStamp.Store(c.Rec("disturber", fmt.Sprint("cancel w", wr.id), nil))
				wr.cancel()
			}
		}
	})
	close(start)
	wdone := make(chan struct{})
	go func() { wwg.Wait(); close(wdone) }()
	for waited := 0; ; waited++ {
		fin := false
		select {
		case <-wdone:
			fin = true
		case <-time.After(200 * time.Millisecond):
		}
		if fin {
			break
		}
		if mon.TakeSnapshot(false).NotQuiet == 0 && mon.QuiesceConfirmed(100*time.Millisecond, time.Second) {
			select {
			case <-wdone:
				fin = true
			default:
			}
			if fin {
				break
			}
			// writers only ever block on the cell's own mutex: in a quiescent process their writes never complete
			c.Violate("lost-wakeup", "ccontainer-write-never-completes", "the process is quiescent but %d of %d writes have not completed (SetValue/SwapValue blocked for ever; validators of odd-numbered waiters call GetValue)", int64(nWriters*perWriter)-writesDone.Load(), nWriters*perWriter)
			return
		}
		if waited > 100 {
			c.Inconclusive("writers did not finish")
			return
		}
	}
	if !mon.Quiesce(10 * time.Second) {
		c.Inconclusive("no quiescence after the writes")
		return
	}
	c.Count("quiescent_judgements", 1)
	final := ctr.GetValue()
	blocked := func() []string {
		var out []string
		for _, wr := range waiters {
			if wr.returned.Load() {
				continue
			}
			fired := wr.cancelStamp.Load() != 0 || wr.errSent.Load() != 0
			sat := wr.satisfied(final, cmp)
			if sat || fired {
				out = append(out, fmt.Sprintf("waiter %d (%s old=%d min=%d) is blocked; final value %d satisfies=%v, cancel/errCh fired=%v", wr.id, wr.kind, wr.old, wr.minVal, final, sat, fired))
			}
		}
		return out
	}
	if rep := blocked(); len(rep) != 0 {
		if mon.QuiesceConfirmed(100*time.Millisecond, 10*time.Second) {
			if rep = blocked(); len(rep) != 0 {
				c.Violate("lost-wakeup", "ccontainer-waiter-blocked-while-satisfied", "%v (custom equality kind: %d)", rep, eqKind)
			}
		}
	}
	// the watcher has seen the final content (or something equal to it) by now
	watchMu.Lock()
	last := initial
	prev := initial
	for i, v := range watched {
		if cmp(prev, v) {
			c.Violate("ccontainer", "watchchanges-delivered-equal-value", "WatchChanges delivered %d right after %d, which the container's comparison treats as equal (delivery %d, eq kind %d)", v, prev, i, eqKind)
		}
		prev = v
		last = v
	}
	nWatched := len(watched)
	watchMu.Unlock()
	c.Count("watchchanges_deliveries", int64(nWatched))
	if !cmp(last, final) && !watchDone.Load() {
		if mon.QuiesceConfirmed(50*time.Millisecond, 5*time.Second) {
			watchMu.Lock()
			if len(watched) > 0 {
				last = watched[len(watched)-1]
			}
			watchMu.Unlock()
			if !cmp(last, final) {
				c.Violate("lost-wakeup", "watchchanges-missed-final-value", "WatchChanges last delivered %d but the cell holds %d at quiescence (eq kind %d, %d deliveries)", last, final, eqKind, nWatched)
			}
		}
	}
	watchCancel()
	for _, wr := range waiters {
		if !wr.returned.Load() && wr.cancelStamp.Load() == 0 {
			wr.cancelStamp.Store(c.Stamp())
		}
		wr.cancel()
	}
	if !c.WaitActors(3 * time.Second) {
		if mon.Quiesce(5*time.Second) && !c.Violated() {
			c.Violate("lost-wakeup", "ccontainer-waiter-ignores-cancel", "a waiter is still blocked in a quiescent process after its context was cancelled")
		}
		return
	}
	if watchErr != context.Canceled {
		c.Violate("ccontainer", "watchchanges-result", "WatchChanges returned %v after its context was cancelled, want context.Canceled", watchErr)
	}
	wmu.Lock()
	defer wmu.Unlock()
	for _, v := range watched {
		found := v == initial
		for i := range writes {
			if writes[i].val == v {
				found = true
			}
		}
		if !found {
			c.Violate("ccontainer", "watchchanges-foreign-value", "WatchChanges delivered %d, which nobody wrote", v)
		}
	}
	for _, wr := range waiters {
		c.Count("waiter_returns_judged", 1)
		if wr.err != nil {
			if wr.val != 0 {
				// a waiter returns only values that satisfy its condition; next to an error it returns the empty value
				c.Violate("ccontainer", "waiter-value-with-error", "waiter %d (%s old=%d min=%d) returned the value %d together with the error %v; that value did not satisfy its condition", wr.id, wr.kind, wr.old, wr.minVal, wr.val, wr.err)
			}
			switch {
			case wr.validatorEr != nil && wr.err == wr.validatorEr:
			case wr.err == errDelivered:
				if wr.useErrCh != 1 || wr.errSent.Load() == 0 || wr.errSent.Load() > wr.ret {
					c.Violate("ccontainer", "waiter-errch-error-not-sent", "waiter %d returned the error-channel error that was not sent before its return", wr.id)
				}
			case wr.err == context.Canceled:
				cs, es := wr.cancelStamp.Load(), wr.errSent.Load()
				okCancel := cs != 0 && cs < wr.ret
				okClosed := wr.useErrCh == 2 && es != 0 && es < wr.ret
				if !okCancel && !okClosed {
					c.Violate("ccontainer", "waiter-canceled-without-source", "waiter %d (%s) returned context.Canceled at %d; cancel at %d, errCh closed at %d (0 = never)", wr.id, wr.kind, wr.ret, cs, es)
				}
			default:
				c.Violate("ccontainer", "waiter-foreign-error", "waiter %d returned %v", wr.id, wr.err)
			}
			continue
		}
		if wr.validatorErred.Load() {
			c.Violate("ccontainer", "waiter-validator-error-ignored", "waiter %d (validator min=%d): its validator returned the error %v (together with the verdict %v), the wait returned (%d, nil)", wr.id, wr.minVal, wr.validatorEr, wr.id%2 == 0, wr.val)
			continue
		}
		if wr.kind == "empty" {
			continue // returns no value; the condition was evaluated on a sampled value we cannot see
		}
		if !wr.satisfied(wr.val, cmp) {
			c.Violate("ccontainer", "waiter-value-violates-condition", "waiter %d (%s old=%d min=%d, custom equality kind %d) returned %d, which does not satisfy its condition", wr.id, wr.kind, wr.old, wr.minVal, eqKind, wr.val)
			continue
		}
		// the value must have been written (unique values) no later than the return
		var src *ccWrite
		for i := range writes {
			if writes[i].val == wr.val && (src == nil || writes[i].s0 < src.s0) {
				src = &writes[i]
			}
		}
		if src == nil || src.s0 > wr.ret {
			c.Violate("ccontainer", "waiter-value-never-held", "waiter %d returned %d, which no write had put into the cell before the return (stamp %d)", wr.id, wr.val, wr.ret)
			continue
		}
		if !custom && wr.val != 0 {
			// stale: certainly overwritten by a write that completed before the waiter even started
			for i := range writes {
				o := writes[i]
				if o.val != wr.val && o.s0 > src.s1 && o.s1 < wr.call {
					c.Violate("ccontainer", "waiter-value-stale", "waiter %d (called at %d) returned %d written during [%d,%d], but write %d during [%d,%d] had certainly replaced it before the call", wr.id, wr.call, wr.val, src.s0, src.s1, o.val, o.s0, o.s1)
					break
				}
			}
		}
	}
}

func ccGatedCase(c *mon.Case) {
	r := c.Rng
	ctr := ccontainer.NewCContainer(0)
	kind := r.IntN(3)
	g := mon.NewGate(verifhook.CContainerBlock, ctr, 1)
	ctx, cancel := context.WithCancel(context.Background())
	defer cancel()
	var returned atomic.Bool
	var val int
	var err error
	c.Go("w", func() {
		c.Rec("w", "call", kind)
		switch kind {
		case 0:
			val, err = ctr.WaitValue(ctx, nil)
		case 1:
			val, err = ctr.WaitValueChange(ctx, 0, nil)
		default:
			val, err = ctr.WaitValueWithValidator(ctx, func(v int) (bool, error) { return v >= 5, nil }, nil)
		}
		c.Rec("w", "return", fmt.Sprint(val, err))
		returned.Store(true)
	})
	if !g.WaitArrived(5 * time.Second) {
		g.Release()
		c.Inconclusive("waiter never reached the pre-select point")
		return
	}
	if r.IntN(2) == 0 {
		ctr.SetValue(7)
	} else {
		ctr.SwapValue(func(int) int { return 7 })
	}
	c.Rec("writer", "wrote 7 while the waiter was parked before its select", nil)
	g.Release()
	c.Count("gated_templates", 1)
	c.NonTrivial()
	c.Mix(uint64(kind))
	if !mon.Quiesce(5*time.Second) || g.TimedOut.Load() {
		c.Inconclusive("no quiescence / gate timeout")
		return
	}
	if !returned.Load() {
		if mon.QuiesceConfirmed(100*time.Millisecond, 5*time.Second) && !returned.Load() {
			c.Violate("lost-wakeup", "ccontainer-waiter-blocked-while-satisfied", "gated template: the waiter (kind %d) is still blocked although 7 was written between its sample and its select and nothing else will be written", kind)
		}
		return
	}
	if err != nil || val != 7 {
		c.Violate("ccontainer", "waiter-value-violates-condition", "gated template: waiter returned (%d, %v), want (7, nil)", val, err)
	}
}

// ccValidatorReentryCase: the waiter's condition is user code. It may read the container it waits on, and a write may
// complete while it is being evaluated; in both situations the waiter returns once the content satisfies the condition.
func ccValidatorReentryCase(c *mon.Case) {
	r := c.Rng
	variant := r.IntN(3)
	initial := 0
	if variant == 0 {
		initial = 5 + r.IntN(5)
	}
	ctr := ccontainer.NewCContainer(initial)
	ctx, cancel := context.WithCancel(context.Background())
	defer cancel()
	inValidator := make(chan struct{})
	written := make(chan struct{})
	var once sync.Once
	defer once.Do(func() { close(written) })
	var first atomic.Bool
	var returned, wrote atomic.Bool
	var val int
	var err error
	c.Go("w", func() {
		c.Rec("w", "call WaitValueWithValidator", variant)
		val, err = ctr.WaitValueWithValidator(ctx, func(v int) (bool, error) {
			switch variant {
			case 0:
				// reads the container (same content or newer)
				if g := ctr.GetValue(); g < 5 {
					return false, fmt.Errorf("GetValue inside the validator returned %d", g)
				}
			default:
				if !first.Swap(true) {
					close(inValidator)
					select {
					case <-written:
					case <-ctx.Done():
					}
				}
			}
			return v >= 5, nil
		}, nil)
		c.Rec("w", "return", fmt.Sprint(val, err))
		returned.Store(true)
	})
	if variant != 0 {
		select {
		case <-inValidator:
		case <-time.After(5 * time.Second):
			c.Inconclusive("validator never called")
			return
		}
		c.Go("writer", func() {
			c.Rec("writer", "write 7 while the waiter evaluates its condition on the sampled value", nil)
			if variant == 1 {
				ctr.SetValue(7)
			} else {
				ctr.SwapValue(func(int) int { return 7 })
			}
			wrote.Store(true)
			c.Rec("writer", "write returned", nil)
			once.Do(func() { close(written) })
		})
	}
	c.Count("validator_reentry_templates", 1)
	c.NonTrivial()
	c.Mix(uint64(variant))
	if !mon.Quiesce(5 * time.Second) {
		c.Inconclusive("no quiescence")
		return
	}
	if !returned.Load() {
		if mon.QuiesceConfirmed(100*time.Millisecond, 5*time.Second) && !returned.Load() {
			if variant == 0 {
				c.Violate("lost-wakeup", "ccontainer-waiter-blocked-while-satisfied", "the cell holds %d, which satisfies the condition v>=5, but the waiter whose validator reads the container with GetValue is blocked in a quiescent process", initial)
			} else {
				c.Violate("lost-wakeup", "ccontainer-write-blocked-by-evaluating-waiter", "a write issued while a waiter evaluates its condition on the sampled value has not completed (returned=%v) and the waiter is blocked in a quiescent process: the write between sample and block is lost to the waiter", wrote.Load())
			}
		}
		return
	}
	want := 7
	if variant == 0 {
		want = initial
	}
	if err != nil || val != want {
		c.Violate("ccontainer", "waiter-value-violates-condition", "validator re-entry template %d: waiter returned (%d, %v), want (%d, nil)", variant, val, err, want)
	}
}

// ccCtxIdentityCase: a waiter interrupted by its context returns that context's error (ctx.Err()), whatever way
// the context ended: cancelled, cancelled with a cause, parent cancelled with a cause, deadline passed (with or without cause).
func ccCtxIdentityCase(c *mon.Case) {
	r := c.Rng
	ctxKind := r.IntN(6)
	wKind := r.IntN(4)
	ctr := ccontainer.NewCContainer(0)
	var ctx context.Context
	fire := func() {}
	pre := false
	switch ctxKind {
	case 0:
		cctx, ccancel := context.WithCancel(context.Background())
		ctx, fire = cctx, ccancel
	case 1:
		cctx, ccancel := context.WithCancelCause(context.Background())
		ctx, fire = cctx, func() { ccancel(errCtxCause) }
	case 2:
		pctx, pcancel := context.WithCancelCause(context.Background())
		cctx, ccancel := context.WithCancel(pctx)
		defer ccancel()
		ctx, fire = cctx, func() { pcancel(errCtxCause) }
	case 3:
		// deadline already passed at the call
		cctx, ccancel := context.WithDeadline(context.Background(), time.Unix(1, 0))
		defer ccancel()
		ctx, pre = cctx, true
	case 4:
		cctx, ccancel := context.WithDeadlineCause(context.Background(), time.Unix(1, 0), errCtxCause)
		defer ccancel()
		ctx, pre = cctx, true
	default:
		// a deadline that passes while the waiter is blocked; the oracle only looks at the returned error
		cctx, ccancel := context.WithTimeoutCause(context.Background(), time.Duration(1+r.IntN(3))*time.Millisecond, errCtxCause)
		defer ccancel()
		ctx = cctx
	}
	defer fire()
	var returned atomic.Bool
	var err error
	c.Go("w", func() {
		c.Rec("w", "call", fmt.Sprint(wKind, ctxKind))
		switch wKind {
		case 0:
			_, err = ctr.WaitValue(ctx, nil)
		case 1:
			_, err = ctr.WaitValueChange(ctx, 0, nil)
		case 2:
			ctr.SetValue(3)
			err = ctr.WaitValueEmpty(ctx, nil)
		default:
			_, err = ctr.WaitValueWithValidator(ctx, func(v int) (bool, error) { return v >= 5, nil }, nil)
		}
		c.Rec("w", "return", fmt.Sprint(err))
		returned.Store(true)
	})
	if !pre && ctxKind != 5 {
		if !mon.Quiesce(5 * time.Second) {
			c.Inconclusive("no quiescence")
			return
		}
		if returned.Load() {
			c.Violate("ccontainer", "waiter-returned-without-source", "waiter kind %d returned %v although the cell never satisfied its condition and its context is live", wKind, err)
			return
		}
		fire()
	}
	c.Count("ctx_identity_templates", 1)
	c.NonTrivial()
	c.Mix(uint64(ctxKind)<<4 | uint64(wKind))
	if !c.WaitActors(5 * time.Second) {
		if mon.Quiesce(5*time.Second) && !returned.Load() {
			c.Violate("lost-wakeup", "ccontainer-waiter-ignores-cancel", "waiter kind %d is still blocked in a quiescent process after its context (kind %d) ended", wKind, ctxKind)
		}
		return
	}
	if err != ctx.Err() {
		c.Violate("ccontainer", "waiter-foreign-error", "waiter kind %d returned %v after its context (kind %d) ended; the context's error is %v", wKind, err, ctxKind, ctx.Err())
	}
}
