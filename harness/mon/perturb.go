package mon

import (
	"math/rand/v2"
	"reflect"
	"runtime"
	"sync"
	"sync/atomic"
	"time"

	"github.com/aperturerobotics/util/verifhook"
)

// Site aliases verifhook.Site.
type Site = verifhook.Site

var siteNames = map[Site]string{
	verifhook.BcastEnter: "BcastEnter", verifhook.BcastLocked: "BcastLocked", verifhook.BcastExit: "BcastExit",
	verifhook.BcastWaitBlock: "BcastWaitBlock", verifhook.MutexBlock: "MutexBlock", verifhook.RWMutexBlock: "RWMutexBlock",
	verifhook.CContainerBlock: "CContainerBlock", verifhook.RoutineExecStart: "RoutineExecStart",
	verifhook.RoutineExecCall: "RoutineExecCall", verifhook.RoutineExecDone: "RoutineExecDone", verifhook.RoutineTimer: "RoutineTimer",
	verifhook.KeyedLock: "KeyedLock", verifhook.KeyedExecStart: "KeyedExecStart", verifhook.KeyedExecCall: "KeyedExecCall",
	verifhook.KeyedExecDone: "KeyedExecDone", verifhook.KeyedTimer: "KeyedTimer", verifhook.RefCountLock: "RefCountLock",
	verifhook.RefCountResolveStart: "RefCountResolveStart", verifhook.RefCountResolveCall: "RefCountResolveCall",
	verifhook.RefCountResolveDone: "RefCountResolveDone", verifhook.PromiseSetMid: "PromiseSetMid", verifhook.OnceLock: "OnceLock",
	verifhook.MemoMid: "MemoMid", verifhook.LifoPushCAS: "LifoPushCAS", verifhook.LifoPopCAS: "LifoPopCAS",
	verifhook.CcallSpawned: "CcallSpawned", verifhook.ConcWorkerLock: "ConcWorkerLock",
}

// SiteName returns the name of a site.
func SiteName(s Site) string { return siteNames[s] }

const nSites = int(verifhook.NumSites)

// perturbation state (process global: one case runs per process at a time)
var (
	hits      [nSites]atomic.Int64
	prob      [nSites]atomic.Uint32 // probability threshold out of 2^32-1
	maxSleep  atomic.Int64          // ns
	countHits atomic.Bool
	callbacks [nSites]atomic.Pointer[func(obj any)]
	gates     atomic.Pointer[[]*Gate]
	gateMu    sync.Mutex
	installed atomic.Bool
)

// Install installs the schedule-point handler. raceSafe disables every shared
// write in the handler (hit counters), so the handler adds no happens-before edge.
func Install(raceSafe bool) {
	countHits.Store(!raceSafe)
	maxSleep.Store(int64(200 * time.Microsecond))
	verifhook.SetHandler(handle)
	installed.Store(true)
}

// SetProb sets the perturbation probability (0..1) of sites.
func SetProb(p float64, sites ...Site) {
	v := uint32(p * float64(^uint32(0)))
	for _, s := range sites {
		prob[s].Store(v)
	}
}

// ClearProb resets every site's probability to zero.
func ClearProb() {
	for i := range prob {
		prob[i].Store(0)
	}
}

// SetMaxSleep sets the longest injected sleep.
func SetMaxSleep(d time.Duration) { maxSleep.Store(int64(d)) }

// OnSite installs a callback run at a site (nil removes it).
func OnSite(s Site, fn func(obj any)) {
	if fn == nil {
		callbacks[s].Store(nil)
		return
	}
	callbacks[s].Store(&fn)
}

// ClearSites removes all callbacks and gates.
func ClearSites() {
	for i := range callbacks {
		callbacks[i].Store(nil)
	}
	gates.Store(nil)
}

// HookHits returns the hit counters by site name.
func HookHits() map[string]int64 {
	m := map[string]int64{}
	for i := 0; i < nSites; i++ {
		if v := hits[i].Load(); v != 0 {
			m[siteNames[Site(i)]] = v
		}
	}
	return m
}

// Hits returns the hit counter of one site.
func Hits(s Site) int64 { return hits[s].Load() }

func handle(site Site, obj any) {
	if countHits.Load() {
		hits[site].Add(1)
	}
	if cb := callbacks[site].Load(); cb != nil {
		(*cb)(obj)
	}
	if gs := gates.Load(); gs != nil {
		for _, g := range *gs {
			if g.site == site && g.matches(obj) {
				g.arrive()
			}
		}
	}
	p := prob[site].Load()
	if p == 0 {
		return
	}
	r := rand.Uint64()
	if uint32(r) >= p {
		return
	}
	if site == verifhook.BcastLocked {
		// inside the critical section: only yield, a sleep under the lock adds nothing
		runtime.Gosched()
		return
	}
	switch (r >> 32) % 8 {
	case 0, 1, 2:
		runtime.Gosched()
	case 3, 4:
		for i := 0; i < int((r>>40)%400); i++ {
			spinSink.Add(0)
		}
		runtime.Gosched()
	case 5, 6:
		time.Sleep(time.Duration(1+(r>>40)%20) * time.Microsecond)
	default:
		ms := maxSleep.Load()
		if ms > 0 {
			time.Sleep(time.Duration(1 + (r>>40)%uint64(ms)))
		}
	}
}

var spinSink atomic.Int64

// Gate parks the n-th goroutine arriving at a site until released (or a generous timeout).
// Gates only order things; no oracle reads their timing.
type Gate struct {
	site    Site
	obj     any
	objPtr  uintptr // if non-zero: match the hook object by pointer value
	nth     int64
	count   atomic.Int64
	arrived chan struct{}
	release chan struct{}
	timeout time.Duration
	relOnce sync.Once
	// TimedOut is set when the gate let its goroutine go by timeout.
	TimedOut atomic.Bool
}

// NewGate arms a gate for the nth (1-based) arrival at site (obj nil = any object).
func NewGate(site Site, obj any, nth int) *Gate {
	g := &Gate{site: site, obj: obj, nth: int64(nth), arrived: make(chan struct{}), release: make(chan struct{}), timeout: 3 * time.Second}
	gateMu.Lock()
	var ns []*Gate
	if cur := gates.Load(); cur != nil {
		ns = append(ns, *cur...)
	}
	ns = append(ns, g)
	gates.Store(&ns)
	gateMu.Unlock()
	return g
}

func (g *Gate) matches(obj any) bool {
	if g.objPtr != 0 {
		if obj == nil {
			return false
		}
		v := reflect.ValueOf(obj)
		return v.Kind() == reflect.Pointer && v.Pointer() == g.objPtr
	}
	return g.obj == nil || g.obj == obj
}

// FieldPtr returns the pointer stored in the (possibly unexported) pointer field of the struct x points to.
// It is used to aim a gate at an inner object the library does not export (0 if not found).
func FieldPtr(x any, field string) uintptr {
	v := reflect.ValueOf(x)
	if v.Kind() != reflect.Pointer || v.Elem().Kind() != reflect.Struct {
		return 0
	}
	f := v.Elem().FieldByName(field)
	if !f.IsValid() || f.Kind() != reflect.Pointer {
		return 0
	}
	return f.Pointer()
}

// NewGatePtr arms a gate for the nth arrival at site of the object with the given pointer value.
func NewGatePtr(site Site, ptr uintptr, nth int) *Gate {
	g := NewGate(site, nil, nth)
	g.objPtr = ptr
	return g
}

func (g *Gate) arrive() {
	if g.count.Add(1) != g.nth {
		return
	}
	close(g.arrived)
	select {
	case <-g.release:
	case <-time.After(g.timeout):
		g.TimedOut.Store(true)
	}
}

// Arrived returns a channel closed when the gated goroutine is parked.
func (g *Gate) Arrived() <-chan struct{} { return g.arrived }

// WaitArrived waits for the arrival up to d.
func (g *Gate) WaitArrived(d time.Duration) bool {
	select {
	case <-g.arrived:
		return true
	case <-time.After(d):
		return false
	}
}

// Release lets the parked goroutine continue and disarms the gate.
func (g *Gate) Release() {
	g.relOnce.Do(func() { close(g.release) })
	gateMu.Lock()
	if cur := gates.Load(); cur != nil {
		var ns []*Gate
		for _, x := range *cur {
			if x != g {
				ns = append(ns, x)
			}
		}
		if len(ns) == 0 {
			gates.Store(nil)
		} else {
			gates.Store(&ns)
		}
	}
	gateMu.Unlock()
}
