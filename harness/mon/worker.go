// Package mon holds the monitoring infrastructure shared by all worlds:
// the per-worker case runner, the recorder with its logical clock, the
// schedule-point handler (perturbation and gates) and the quiescence detector.
package mon

import (
	"encoding/json"
	"fmt"
	"hash/fnv"
	"io"
	"math/rand/v2"
	"os"
	"runtime"
	"sort"
	"strconv"
	"sync"
	"sync/atomic"
	"time"
)

// Worker runs the fixed, seed-determined case list of one property.
type Worker struct {
	Prop  string
	Tier  string
	Seed  uint64
	Idx   int
	N     int
	From  int // first case index to run (earlier ones are skipped, used after a stuck case)
	Only  int // if >=0 run only this case index (replay)
	Race  bool
	Rng   *rand.Rand
	out   io.Writer
	outMu sync.Mutex

	caseIdx      int
	evaluations  int64
	nontrivial   map[uint64]struct{}
	ntCases      int64
	events       int64
	counters     map[string]int64
	samples      []any
	ntSamples    int
	inconclusive int64
	violations   int64
	start        time.Time
	// CaseTimeout is the wall-clock watchdog per case (inconclusive when it fires).
	CaseTimeout time.Duration
	// MaxSamples is the number of sample histories kept.
	MaxSamples int
}

// Quick reports whether the tier is "quick".
func (w *Worker) Quick() bool { return w.Tier != "thorough" }

// Scale returns q for the quick tier and t for the thorough tier.
func (w *Worker) Scale(q, t int) int {
	if w.Quick() {
		return q
	}
	return t
}

// Share splits a total number of cases over the workers (at least 1 each).
func (w *Worker) Share(total int) int {
	n := total / w.N
	if w.Idx < total%w.N {
		n++
	}
	if n < 1 {
		n = 1
	}
	return n
}

// SubSeed derives a 64-bit value from the seed, the property, the worker and extra words.
func SubSeed(seed uint64, prop string, words ...uint64) uint64 {
	h := fnv.New64a()
	var b [8]byte
	put := func(v uint64) {
		for i := 0; i < 8; i++ {
			b[i] = byte(v >> (8 * i))
		}
		_, _ = h.Write(b[:])
	}
	put(seed)
	_, _ = h.Write([]byte(prop))
	for _, x := range words {
		put(x)
	}
	return h.Sum64()
}

// NewWorker builds a worker writing JSONL to out.
func NewWorker(prop, tier string, seed uint64, idx, n int, out io.Writer) *Worker {
	s := SubSeed(seed, prop, uint64(idx))
	return &Worker{
		Prop: prop, Tier: tier, Seed: seed, Idx: idx, N: n, Only: -1,
		Rng:         rand.New(rand.NewPCG(s, s^0x9e3779b97f4a7c15)),
		out:         out,
		nontrivial:  map[uint64]struct{}{},
		counters:    map[string]int64{},
		start:       time.Now(),
		CaseTimeout: 30 * time.Second,
		MaxSamples:  3,
	}
}

func (w *Worker) emit(v any) {
	b, err := json.Marshal(v)
	if err != nil {
		b, _ = json.Marshal(map[string]any{"type": "error", "msg": "marshal: " + err.Error()})
	}
	w.outMu.Lock()
	_, _ = w.out.Write(append(b, '\n'))
	w.outMu.Unlock()
}

// Event is one recorded observation.
type Event struct {
	T     int64  `json:"t"`
	Actor string `json:"a"`
	Op    string `json:"op"`
	Arg   any    `json:"arg,omitempty"`
}

// Violation is a refuted property instance with its witness.
type Violation struct {
	Kind   string `json:"kind"`
	Sig    string `json:"sig"`
	Detail string `json:"detail"`
}

// Case is one execution under observation.
type Case struct {
	W      *Worker
	Name   string
	Index  int
	Params any
	Rng    *rand.Rand

	clock atomic.Int64

	mu       sync.Mutex
	events   []Event
	nevents  int64
	hash     uint64
	viol     []Violation
	incon    string
	counters map[string]int64

	nontrivial atomic.Bool
	evals      int64
	ntInputs   []uint64
	useInputs  bool
	done       chan struct{}
	wg         sync.WaitGroup
}

const maxKeptEvents = 600

// Stamp returns the next value of the case's logical clock.
func (c *Case) Stamp() int64 { return c.clock.Add(1) }

// Now returns the current value of the logical clock without advancing it.
func (c *Case) Now() int64 { return c.clock.Load() }

// Rec records an event (stamped under the recorder lock, so the log order is the stamp order).
func (c *Case) Rec(actor, op string, arg any) int64 {
	c.mu.Lock()
	t := c.clock.Add(1)
	c.recLocked(t, actor, op, arg)
	c.mu.Unlock()
	return t
}

func (c *Case) recLocked(t int64, actor, op string, arg any) {
	c.nevents++
	// running shape hash: order of (actor, op) pairs
	h := c.hash
	if h == 0 {
		h = 1469598103934665603
	}
	for i := 0; i < len(actor); i++ {
		h = (h ^ uint64(actor[i])) * 1099511628211
	}
	h = (h ^ 0xff) * 1099511628211
	for i := 0; i < len(op); i++ {
		h = (h ^ uint64(op[i])) * 1099511628211
	}
	h = (h ^ 0xfe) * 1099511628211
	c.hash = h
	if len(c.events) < maxKeptEvents {
		c.events = append(c.events, Event{T: t, Actor: actor, Op: op, Arg: arg})
	}
}

// Mix adds a word to the shape hash without recording an event.
func (c *Case) Mix(v uint64) {
	c.mu.Lock()
	h := c.hash
	if h == 0 {
		h = 1469598103934665603
	}
	for i := 0; i < 8; i++ {
		h = (h ^ (v >> (8 * i) & 0xff)) * 1099511628211
	}
	c.hash = h
	c.mu.Unlock()
}

// Count adds to a named counter.
func (c *Case) Count(name string, n int64) {
	c.mu.Lock()
	c.counters[name] += n
	c.mu.Unlock()
}

// Evals counts n evaluated inputs inside this case (the case then counts as n evaluations).
func (c *Case) Evals(n int) {
	c.mu.Lock()
	c.evals += int64(n)
	c.mu.Unlock()
}

// NTInput registers one distinct non-trivial input by its hash (used by the
// input-driven worlds instead of the per-case shape hash).
func (c *Case) NTInput(h uint64) {
	c.mu.Lock()
	c.useInputs = true
	c.ntInputs = append(c.ntInputs, h)
	c.mu.Unlock()
}

// HashBytes is a 64-bit FNV-1a hash used for input identities.
func HashBytes(parts ...[]byte) uint64 {
	h := uint64(1469598103934665603)
	for _, p := range parts {
		for _, b := range p {
			h = (h ^ uint64(b)) * 1099511628211
		}
		h = (h ^ 0xff) * 1099511628211
	}
	return h
}

// NonTrivial marks the case as non-trivial by the property's rule.
func (c *Case) NonTrivial() { c.nontrivial.Store(true) }

// Violate records a violation with a stable signature.
func (c *Case) Violate(kind, sig, format string, args ...any) {
	c.mu.Lock()
	if len(c.viol) < 8 {
		c.viol = append(c.viol, Violation{Kind: kind, Sig: sig, Detail: fmt.Sprintf(format, args...)})
	}
	c.mu.Unlock()
}

// DropViolations discards the violations recorded so far and returns how many there were
// (used when a workload runs under another property's oracle).
func (c *Case) DropViolations() int {
	c.mu.Lock()
	defer c.mu.Unlock()
	n := len(c.viol)
	c.viol = nil
	return n
}

// Violated reports whether a violation was recorded.
func (c *Case) Violated() bool {
	c.mu.Lock()
	defer c.mu.Unlock()
	return len(c.viol) != 0
}

// Inconclusive marks the case as inconclusive.
func (c *Case) Inconclusive(why string) {
	c.mu.Lock()
	if c.incon == "" {
		c.incon = why
	}
	c.mu.Unlock()
}

// Go runs fn in a tracked goroutine; a panic in it is recorded as a violation.
func (c *Case) Go(name string, fn func()) {
	c.wg.Add(1)
	go func() {
		defer c.wg.Done()
		defer func() {
			if r := recover(); r != nil {
				buf := make([]byte, 4096)
				buf = buf[:runtime.Stack(buf, false)]
				c.Violate("panic", "panic:"+name, "panic in actor %s: %v\n%s", name, r, buf)
			}
		}()
		fn()
	}()
}

// WaitActors waits until every goroutine started with Go has returned or the timeout passed.
// It returns false (and marks nothing) on timeout.
func (c *Case) WaitActors(d time.Duration) bool {
	ch := make(chan struct{})
	go func() { c.wg.Wait(); close(ch) }()
	select {
	case <-ch:
		return true
	case <-time.After(d):
		return false
	}
}

// WaitActorsOrHang waits until every goroutine started with Go has returned. If instead the
// process becomes quiescent (nobody can take a step) while actors are still inside, it
// returns hung=true after a confirming grace period; on timeout both results are false.
func (c *Case) WaitActorsOrHang(d time.Duration) (finished, hung bool) {
	ch := make(chan struct{})
	go func() { c.wg.Wait(); close(ch) }()
	deadline := time.After(d)
	for {
		select {
		case <-ch:
			return true, false
		case <-deadline:
			return false, false
		case <-time.After(20 * time.Millisecond):
		}
		if s := TakeSnapshot(false); s.NotQuiet == 0 {
			if QuiesceConfirmed(50*time.Millisecond, time.Second) {
				select {
				case <-ch:
					return true, false
				default:
					return false, true
				}
			}
		}
	}
}

// Events returns a copy of the kept events.
func (c *Case) Events() []Event {
	c.mu.Lock()
	defer c.mu.Unlock()
	return append([]Event(nil), c.events...)
}

// Case runs one case: logs its parameters first, runs body under a watchdog, then logs the result.
func (w *Worker) Case(name string, params any, body func(c *Case)) {
	idx := w.caseIdx
	w.caseIdx++
	// the per-case generator is drawn always, so skipping keeps later cases identical
	s1, s2 := w.Rng.Uint64(), w.Rng.Uint64()
	if idx < w.From || (w.Only >= 0 && idx != w.Only) {
		return
	}
	c := &Case{W: w, Name: name, Index: idx, Params: params, counters: map[string]int64{}, done: make(chan struct{})}
	c.Rng = rand.New(rand.NewPCG(s1, s2))
	w.emit(map[string]any{"type": "start", "case": idx, "name": name, "params": params})

	// wall-clock watchdog: firing is inconclusive, never a violation
	go func() {
		select {
		case <-c.done:
		case <-time.After(w.CaseTimeout):
			buf := make([]byte, 1<<20)
			buf = buf[:runtime.Stack(buf, true)]
			c.mu.Lock()
			viol := append([]Violation(nil), c.viol...)
			c.mu.Unlock()
			if len(viol) == 0 {
				// not a wall-clock verdict: the dump shows a state nothing can leave (every goroutine blocked, one of
				// them on a library mutex), and it is the same state after a grace period
				if w1, ok := DeadlockInDump(buf); ok {
					time.Sleep(500 * time.Millisecond)
					buf2 := make([]byte, 1<<20)
					buf2 = buf2[:runtime.Stack(buf2, true)]
					if w2, ok2 := DeadlockInDump(buf2); ok2 && w1 == w2 {
						viol = append(viol, Violation{Kind: "hang", Sig: "library-mutex-deadlock", Detail: "every goroutine of the process is blocked and at least one is blocked for ever acquiring a mutex inside the library: " + w1})
						w.emit(map[string]any{"type": "violation", "case": idx, "name": name, "params": params, "violations": viol, "events": tail(c.Events(), 400)})
						viol = nil
					}
				}
			}
			if len(viol) == 0 {
				// a goroutine that keeps the CPU inside the library, in the same function, with no event recorded by the
				// harness in between: a busy loop (the timer only chose when to look)
				sp1 := SpinnersInDump(buf)
				if len(sp1) != 0 {
					c.mu.Lock()
					ev1 := c.nevents
					c.mu.Unlock()
					time.Sleep(500 * time.Millisecond)
					buf2 := make([]byte, 1<<20)
					buf2 = buf2[:runtime.Stack(buf2, true)]
					sp2 := SpinnersInDump(buf2)
					c.mu.Lock()
					ev2 := c.nevents
					c.mu.Unlock()
					for id, fn := range sp1 {
						if _, again := sp2[id]; again && ev1 == ev2 {
							viol = append(viol, Violation{Kind: "hang", Sig: "library-busy-loop", Detail: "long after the case should have finished a goroutine is still running inside " + fn + " (same goroutine, same function in two dumps half a second apart, no event recorded in between): it loops without making progress"})
							w.emit(map[string]any{"type": "violation", "case": idx, "name": name, "params": params, "violations": viol, "events": tail(c.Events(), 400)})
							viol = nil
							break
						}
					}
				}
			}
			if len(viol) != 0 {
				// the case recorded a violation and then got stuck (e.g. a panic left a library mutex locked)
				viol = append(viol, Violation{Kind: "hang", Sig: "stuck-after-violation", Detail: "the case did not finish after the violation above (watchdog)"})
				w.emit(map[string]any{"type": "violation", "case": idx, "name": name, "params": params, "violations": viol, "events": tail(c.Events(), 400)})
			}
			w.emit(map[string]any{"type": "stuck", "case": idx, "name": name, "params": params, "events": tail(c.Events(), 200)})
			fmt.Fprintf(os.Stderr, "WATCHDOG case %d %s\n%s\n", idx, name, buf)
			os.Exit(4)
		}
	}()

	func() {
		defer func() {
			if r := recover(); r != nil {
				buf := make([]byte, 8192)
				buf = buf[:runtime.Stack(buf, false)]
				c.Violate("panic", "panic:main", "panic in case body: %v\n%s", r, buf)
			}
		}()
		body(c)
	}()
	close(c.done)

	c.mu.Lock()
	viol := c.viol
	incon := c.incon
	nev := c.nevents
	hash := c.hash
	cnt := c.counters
	c.mu.Unlock()

	if c.evals > 0 {
		w.evaluations += c.evals
	} else {
		w.evaluations++
	}
	w.events += nev
	for k, v := range cnt {
		w.counters[k] += v
	}
	nt := c.nontrivial.Load()
	if incon != "" {
		w.inconclusive++
		w.emit(map[string]any{"type": "inconclusive", "case": idx, "name": name, "why": incon})
	}
	if c.useInputs {
		if incon == "" {
			w.ntCases += int64(len(c.ntInputs))
			for _, h := range c.ntInputs {
				w.nontrivial[h] = struct{}{}
			}
		}
	} else if nt && incon == "" {
		w.ntCases++
		w.nontrivial[hash] = struct{}{}
	}
	if len(viol) != 0 {
		w.violations++
		w.emit(map[string]any{"type": "violation", "case": idx, "name": name, "params": params, "violations": viol, "events": tail(c.Events(), 400)})
	}
	if nt && w.ntSamples < w.MaxSamples {
		w.ntSamples++
		w.samples = append(w.samples, map[string]any{"case": idx, "name": name, "params": params, "nontrivial": nt, "events": head(c.Events(), 60)})
	} else if len(w.samples) < 1 {
		w.samples = append(w.samples, map[string]any{"case": idx, "name": name, "params": params, "nontrivial": nt, "events": head(c.Events(), 60)})
	}
}

func tail(e []Event, n int) []Event {
	if len(e) > n {
		return e[len(e)-n:]
	}
	return e
}

func head(e []Event, n int) []Event {
	if len(e) > n {
		return e[:n]
	}
	return e
}

// AddCounter adds to a worker-level counter (outside of any case).
func (w *Worker) AddCounter(name string, n int64) { w.counters[name] += n }

// AddSample adds a free-form sample to the evidence.
func (w *Worker) AddSample(s any) {
	if len(w.samples) < w.MaxSamples+2 {
		w.samples = append(w.samples, s)
	}
}

// Finish emits the worker summary.
func (w *Worker) Finish(hookHits map[string]int64) {
	hs := make([]string, 0, len(w.nontrivial))
	for h := range w.nontrivial {
		hs = append(hs, strconv.FormatUint(h, 36))
	}
	sort.Strings(hs)
	if len(w.samples) > w.MaxSamples+2 {
		w.samples = w.samples[:w.MaxSamples+2]
	}
	w.emit(map[string]any{
		"type": "summary", "worker": w.Idx, "evaluations": w.evaluations, "nontrivial_cases": w.ntCases,
		"hashes": hs, "events": w.events, "counters": w.counters, "hook_hits": hookHits,
		"inconclusive": w.inconclusive, "violations": w.violations, "samples": w.samples,
		"cases_total": w.caseIdx, "wall_s": time.Since(w.start).Seconds(),
	})
}
