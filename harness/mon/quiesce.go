package mon

import (
	"bytes"
	"runtime"
	"strconv"
	"time"
)

// GoID returns the id of the calling goroutine.
func GoID() int64 {
	var buf [64]byte
	b := buf[:runtime.Stack(buf[:], false)]
	// "goroutine 123 [running]:"
	b = b[len("goroutine "):]
	i := bytes.IndexByte(b, ' ')
	if i < 0 {
		return -1
	}
	n, _ := strconv.ParseInt(string(b[:i]), 10, 64)
	return n
}

// blocked goroutine states in which a goroutine can only be woken by another goroutine
// (or, for "select"/"chan receive", by a timer owned by the harness: watchdogs and gate timeouts).
var blockedStates = map[string]bool{
	"chan receive":            true,
	"chan send":               true,
	"select":                  true,
	"select (no cases)":       true,
	"chan receive (nil chan)": true,
	"chan send (nil chan)":    true,
	// "semacquire" is deliberately NOT a blocked state: it is the wait reason of runtime-internal
	// semaphores such as worldsema, which the snapshot's own stop-the-world holds - a goroutine that
	// wants to start a GC cycle shows up as [semacquire] in the dump and runs again right after it.
	"sync.Mutex.Lock":     true,
	"sync.RWMutex.RLock":  true,
	"sync.RWMutex.Lock":   true,
	"sync.Cond.Wait":      true,
	"sync.WaitGroup.Wait": true,
}

// Snapshot is a consistent (stop-the-world) view of goroutine states.
type Snapshot struct {
	Total    int
	NotQuiet int
	States   map[string]int
	Dump     []byte
}

var stackBuf = make([]byte, 1<<18)

// TakeSnapshot parses runtime.Stack(all). Must be called by one goroutine at a time.
func TakeSnapshot(keepDump bool) Snapshot {
	var n int
	for {
		n = runtime.Stack(stackBuf, true)
		if n < len(stackBuf) {
			break
		}
		stackBuf = make([]byte, 2*len(stackBuf))
	}
	b := stackBuf[:n]
	s := Snapshot{States: map[string]int{}}
	first := true
	for len(b) > 0 {
		i := bytes.IndexByte(b, '\n')
		var line []byte
		if i < 0 {
			line, b = b, nil
		} else {
			line, b = b[:i], b[i+1:]
		}
		if !bytes.HasPrefix(line, []byte("goroutine ")) || !bytes.HasSuffix(line, []byte("]:")) {
			continue
		}
		l := bytes.IndexByte(line, '[')
		if l < 0 {
			continue
		}
		st := line[l+1 : len(line)-2]
		if j := bytes.IndexByte(st, ','); j >= 0 {
			st = st[:j]
		}
		if first {
			// the caller itself
			first = false
			continue
		}
		s.Total++
		name := string(st)
		if name == "semacquire" {
			// before Go 1.24 sync.WaitGroup.Wait parks with the generic reason "semacquire"; that one is a
			// real block. Any other semacquire (worldsema, gcsema, ...) is not.
			end := bytes.Index(b, []byte("\n\n"))
			frames := b
			if end >= 0 {
				frames = b[:end]
			}
			if bytes.Contains(frames, []byte("sync.(*WaitGroup).Wait")) {
				name = "sync.WaitGroup.Wait"
			}
		}
		s.States[name]++
		if !blockedStates[name] {
			s.NotQuiet++
		}
	}
	if keepDump {
		s.Dump = append([]byte(nil), stackBuf[:n]...)
	}
	return s
}

// DebugKeepDump makes Quiesce keep the dump of the snapshot it judged quiet (debugging only).
var DebugKeepDump bool

// LastQuietDump is that dump.
var LastQuietDump []byte

// Quiesce waits until every goroutine other than the caller is blocked (see
// blockedStates). It returns false if that state was not reached within max;
// the caller must treat that as inconclusive. For timer-free subsystems a
// quiescent state is permanent: a blocked goroutine is only woken by a running one.
func Quiesce(max time.Duration) bool {
	deadline := time.Now().Add(max)
	pause := 20 * time.Microsecond
	for {
		runtime.Gosched()
		s := TakeSnapshot(DebugKeepDump)
		if s.NotQuiet == 0 {
			LastQuietDump = s.Dump
			return true
		}
		if time.Now().After(deadline) {
			return false
		}
		time.Sleep(pause)
		if pause < 2*time.Millisecond {
			pause *= 2
		}
	}
}

// QuiesceConfirmed is used before reporting a violation from a quiescent state:
// it lets the process run free for a grace period and requires quiescence again.
// The grace period can only retract a report.
func QuiesceConfirmed(grace, max time.Duration) bool {
	time.Sleep(grace)
	return Quiesce(max)
}

// SettleTimers waits long enough for library timers of duration d armed before the
// call to have fired and their goroutines to have run: it sleeps ticks*d (at least
// min) in small steps and then requires goroutine-state quiescence.
func SettleTimers(d time.Duration, ticks int, min, max time.Duration) bool {
	total := time.Duration(ticks) * d
	if total < min {
		total = min
	}
	step := d
	if step < 200*time.Microsecond {
		step = 200 * time.Microsecond
	}
	for waited := time.Duration(0); waited < total; waited += step {
		time.Sleep(step)
	}
	return Quiesce(max)
}

// DeadlockInDump judges a goroutine dump (runtime.Stack(all); the first goroutine is the caller and is ignored):
// it reports true if every other goroutine is in a blocked state (see blockedStates) and at least one of them is
// blocked acquiring a sync.Mutex / sync.RWMutex from inside the library. Nothing in such a process can release that
// lock any more, so the goroutine is blocked for ever. Used by the case watchdog, which otherwise reports "stuck" (inconclusive).
func DeadlockInDump(dump []byte) (string, bool) {
	blocks := bytes.Split(dump, []byte("\n\n"))
	witness := ""
	for i, b := range blocks {
		if i == 0 || len(bytes.TrimSpace(b)) == 0 {
			continue
		}
		nl := bytes.IndexByte(b, '\n')
		head := b
		if nl >= 0 {
			head = b[:nl]
		}
		if !bytes.HasPrefix(head, []byte("goroutine ")) {
			continue
		}
		l := bytes.IndexByte(head, '[')
		r := bytes.LastIndexByte(head, ']')
		if l < 0 || r < l {
			continue
		}
		st := head[l+1 : r]
		if j := bytes.IndexByte(st, ','); j >= 0 {
			st = st[:j]
		}
		name := string(st)
		if name == "semacquire" && bytes.Contains(b, []byte("sync.(*WaitGroup).Wait")) {
			name = "sync.WaitGroup.Wait"
		}
		if !blockedStates[name] {
			return "", false
		}
		if (name == "sync.Mutex.Lock" || name == "sync.RWMutex.Lock" || name == "sync.RWMutex.RLock") && witness == "" {
			// the frame that called Lock must be library code
			lines := bytes.Split(b, []byte("\n"))
			for k := 1; k < len(lines); k++ {
				ln := string(lines[k])
				if len(ln) > 0 && ln[0] != '\t' && !bytes.HasPrefix(lines[k], []byte("sync.")) && !bytes.HasPrefix(lines[k], []byte("internal/")) && !bytes.HasPrefix(lines[k], []byte("runtime.")) {
					if bytes.HasPrefix(lines[k], []byte("github.com/aperturerobotics/util/")) && !bytes.Contains(lines[k], []byte("/verifhook.")) {
						witness = ln
					}
					break
				}
			}
		}
	}
	return witness, witness != ""
}

// SpinnersInDump lists the goroutines of a dump (first goroutine = the caller, ignored) that are running or runnable
// with library code on their stack, as "goroutine-id function". Used by the case watchdog: a goroutine that is still
// busy inside the library in two dumps taken half a second apart, long after the case should have finished and with no
// new event recorded in between, is looping without making progress.
func SpinnersInDump(dump []byte) map[string]string {
	out := map[string]string{}
	blocks := bytes.Split(dump, []byte("\n\n"))
	for i, b := range blocks {
		if i == 0 {
			continue
		}
		nl := bytes.IndexByte(b, '\n')
		if nl < 0 || !bytes.HasPrefix(b, []byte("goroutine ")) {
			continue
		}
		head := b[:nl]
		l := bytes.IndexByte(head, '[')
		r := bytes.LastIndexByte(head, ']')
		if l < 0 || r < l {
			continue
		}
		st := head[l+1 : r]
		if j := bytes.IndexByte(st, ','); j >= 0 {
			st = st[:j]
		}
		if string(st) != "running" && string(st) != "runnable" && string(st) != "sleep" {
			// "sleep": a delay injected by the schedule-point handler, which the loop passes through on every turn
			continue
		}
		id := string(head[len("goroutine "):l])
		for _, ln := range bytes.Split(b[nl+1:], []byte("\n")) {
			if len(ln) == 0 || ln[0] == '\t' {
				continue
			}
			// the innermost frame outside the runtime must be library code: a goroutine that runs harness code called
			// by the library (a job, a callback) is not the library's loop
			if bytes.HasPrefix(ln, []byte("runtime.")) || bytes.HasPrefix(ln, []byte("sync.")) || bytes.HasPrefix(ln, []byte("sync/atomic.")) || bytes.HasPrefix(ln, []byte("internal/")) || bytes.HasPrefix(ln, []byte("time.")) || bytes.HasPrefix(ln, []byte("context.")) ||
				bytes.HasPrefix(ln, []byte("math/rand")) || bytes.HasPrefix(ln, []byte("github.com/aperturerobotics/util/verifhook.")) || bytes.HasPrefix(ln, []byte("verifharness/mon.handle")) {
				// the schedule-point handler the library calls into is transparent
				continue
			}
			if !bytes.HasPrefix(ln, []byte("github.com/aperturerobotics/util/")) || bytes.Contains(ln, []byte("/verifhook.")) {
				break
			}
			{
				fn := string(ln)
				if k := bytes.IndexByte(ln, '('); k > 0 {
					// keep "pkg.(*T).Method" / "pkg.Func", drop the argument words
					if ln[k-1] == '.' {
						if k2 := bytes.IndexByte(ln[k+1:], '('); k2 >= 0 {
							fn = string(ln[:k+1+k2])
						}
					} else {
						fn = string(ln[:k])
					}
				}
				out[id] = fn
				break
			}
		}
	}
	return out
}

// BusyLoopInLibrary takes two goroutine dumps gap apart and reports a goroutine that is running or runnable with the
// same library function innermost in both. Meant for the moment a case has failed to become quiescent for many seconds.
func BusyLoopInLibrary(gap time.Duration) (string, bool) {
	take := func() []byte {
		buf := make([]byte, 1<<20)
		return buf[:runtime.Stack(buf, true)]
	}
	s1 := SpinnersInDump(take())
	if len(s1) == 0 {
		return "", false
	}
	time.Sleep(gap)
	s2 := SpinnersInDump(take())
	for id, fn := range s1 {
		if fn2, ok := s2[id]; ok {
			// the loop may span several library functions: the same goroutine being busy in library code both times is the point
			if fn2 != fn {
				fn += " / " + fn2
			}
			return fn, true
		}
	}
	return "", false
}
