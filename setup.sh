#!/bin/sh
# Builds the harness once (offline) so that later checks hit the Go build cache.
export GOFLAGS=-mod=mod GOPROXY=off GOSUMDB=off GOTOOLCHAIN=local
cd "$(dirname "$0")/harness" || exit 1
T=$(mktemp -d /var/tmp/verif-setup.XXXXXX)
trap 'rm -rf "$T"' EXIT
go build -tags verif -o "$T/vrun" ./cmd/vrun || exit 1
go build -tags verif -race -o "$T/vrun-race" ./cmd/vrun || exit 1
echo "harness built"
